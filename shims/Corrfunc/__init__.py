"""Import-only stand-in (the real package is not installable offline)."""
