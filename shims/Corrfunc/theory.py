def _na(*a, **k):  # pragma: no cover
    raise NotImplementedError('Corrfunc stand-in')


DDrppi = DDsmu = DD = wp = xi = _na
