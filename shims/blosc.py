"""Stand-in for the third-party `blosc` package (not installable offline).

The repository treats blosc as a black-box codec bytes -> bytes.  This stand-in
is deterministic, produces self-describing frames whose length depends on the
data (16-byte blosc1-style header + zlib payload) and implements exactly the
entry points abacusnbody.data.asdf uses.  See DESIGN.md section 1.
"""
import ctypes
import struct
import zlib

SHUFFLE = 1
NOSHUFFLE = 0
BITSHUFFLE = 2
MAX_BUFFERSIZE = 2**31 - 1 - 16

_nthreads = 1
_blocksize = 0


def set_nthreads(n):
    global _nthreads
    old, _nthreads = _nthreads, int(n)
    return old


def set_blocksize(n):
    global _blocksize
    _blocksize = int(n)


def compress(data, typesize=8, clevel=9, shuffle=SHUFFLE, cname='blosclz'):
    raw = bytes(memoryview(data).cast('B')) if not isinstance(data, bytes) else data
    payload = zlib.compress(raw, max(1, min(9, int(clevel))))
    cbytes = 16 + len(payload)
    # version, versionlz, flags, typesize, nbytes, blocksize, cbytes (little endian)
    hdr = struct.pack('<BBBBIII', 2, 1, int(shuffle) & 0xFF, int(typesize) & 0xFF,
                      len(raw), _blocksize & 0xFFFFFFFF, cbytes)
    return hdr + payload


def _decode(frame):
    frame = bytes(memoryview(frame).cast('B'))
    if len(frame) < 16:
        raise ValueError('blosc stand-in: frame shorter than header')
    _v, _vl, _fl, _ts, nbytes, _bs, cbytes = struct.unpack('<BBBBIII', frame[:16])
    if cbytes != len(frame):
        raise ValueError('blosc stand-in: frame length %d != header cbytes %d' % (len(frame), cbytes))
    raw = zlib.decompress(frame[16:])
    if len(raw) != nbytes:
        raise ValueError('blosc stand-in: payload length mismatch')
    return raw


def decompress(frame, as_bytearray=False):
    raw = _decode(frame)
    return bytearray(raw) if as_bytearray else raw


def decompress_ptr(frame, address, **kwargs):
    raw = _decode(frame)
    ctypes.memmove(int(address), raw, len(raw))
    return len(raw)
