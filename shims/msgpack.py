"""Import-only stand-in (abacusnbody.metadata needs it at import; no check calls it)."""


def _na(*a, **k):  # pragma: no cover
    raise NotImplementedError('msgpack stand-in')


loads = dumps = unpackb = packb = _na
