"""Import-only stand-in (the real package is not installable offline)."""


class MTGenerator:  # pragma: no cover
    def __init__(self, *a, **k):
        raise NotImplementedError('parallel_numpy_rng stand-in: not callable in the verification harness')


def default_rng(*a, **k):  # pragma: no cover
    raise NotImplementedError('parallel_numpy_rng stand-in')
