#!/venv/bin/python
"""Persist verified seeded breakages under /verif/seeded/<ID>-<n>/ (patch.diff, demo.py, notes.md, meta.json).

The table below is maintained by hand from the verification runs (tools/seedtest.sh): for each change it records the
property it breaks, what it needs in order to manifest, what was run, and which checks catch it.
"""
import json
import os
import shutil
import sys

HERE = os.path.dirname(os.path.dirname(os.path.abspath(__file__)))
RAN = ("tools/seedtest.sh <ID> <n> '<checks>': patch applied in a scratch worktree of /repo (outside /repo and /verif); "
       "30 baseline tests (tests/test_util.py tests/test_tsc.py -k 'not test_multi') pass with the change; demo exits 0 on unmodified /repo and !=0 on the changed tree; "
       "each listed check run with VERIF_REPO=<worktree> ./check <P> --tier quick; worktree reverted and removed afterwards")

# (ID, n): dict(breaks=, needs=, caught_by=[(check, signature)], history=)
TABLE = json.load(open(os.path.join(HERE, 'seeded', 'TABLE.json')))


def main():
    for key, rec in sorted(TABLE.items()):
        ID, n = key.split('-')
        src = '/tmp/seed-%s-out' % ID
        if int(n) >= 9:  # fifth round (all twenty properties): seeded/<ID>-9 and -10 come from /tmp/seed6-<ID>-out/{patch,demo,notes}{1,2}
            src = '/tmp/seed6-%s-out' % ID
            n = str(int(n) - 8)
        elif int(n) >= 7:  # fourth round: seeded/<ID>-7 and -8 come from /tmp/seed4-<ID>-out/{patch,demo,notes}{1,2}
            src = '/tmp/seed4-%s-out' % ID  # C02 C04 C05 C11 C14 C15 C17 C18 C19 C20
            if not os.path.isdir(src):
                src = '/tmp/seed5-%s-out' % ID  # the other ten properties (same round, launched later)
            n = str(int(n) - 6)
        elif int(n) >= 5:  # third round: seeded/<ID>-5 and -6 come from /tmp/seed3-<ID>-out/{patch,demo,notes}{1,2}
            src = '/tmp/seed3-%s-out' % ID
            n = str(int(n) - 4)
        elif int(n) >= 3:  # second round: seeded/<ID>-3 and -4 come from /tmp/seed2-<ID>-out/{patch,demo,notes}{1,2}
            src = '/tmp/seed2-%s-out' % ID
            n = str(int(n) - 2)
        if rec.get('src'):  # explicit source (targeted rounds): [directory, N]
            src, n = rec['src'][0], str(rec['src'][1])
        dst = os.path.join(HERE, 'seeded', key)
        if os.path.isdir(src):
            os.makedirs(dst, exist_ok=True)
            for a, b in (('patch%s.diff' % n, 'patch.diff'), ('demo%s.py' % n, 'demo.py'), ('notes%s.md' % n, 'notes.md')):
                if os.path.exists(os.path.join(src, a)):
                    shutil.copy(os.path.join(src, a), os.path.join(dst, b))
        if not os.path.isdir(dst):
            print('missing', key)
            continue
        meta = dict(id=key, property=rec['property'], breaks=rec['breaks'], needs=rec['needs'], ran=RAN, base_commit=rec.get('base', ''),
                    baseline_tests_pass_with_change=True, demo_exit_unmodified=0, demo_exit_modified=1,
                    caught_by=rec['caught_by'], history=rec.get('history', ''))
        with open(os.path.join(dst, 'meta.json'), 'w') as f:
            json.dump(meta, f, indent=1)
    print('saved', len(TABLE))


if __name__ == '__main__':
    sys.exit(main())
