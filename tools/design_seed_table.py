#!/venv/bin/python
"""Regenerate DESIGN.md section 10.4 (seeded breakages) from seeded/TABLE.json."""
import json, os, re
HERE = os.path.dirname(os.path.dirname(os.path.abspath(__file__)))
T = json.load(open(os.path.join(HERE, 'seeded', 'TABLE.json')))
n = len(T)
def status(r):
    h = r['history']
    if h.startswith('caught'):
        return 'caught'
    if h.startswith('MISSED by the check as it stood (third'):
        return '**missed -> strengthened**'
    if h.startswith('MISSED by the check as it stood'):
        return '**missed -> extended on reading the report**'
    if h.startswith('MISSED') or h.startswith('missed by the check as it stood (fourth') or h.startswith('missed by the check as it stood (fifth') or h.startswith('missed by the check as it stood (sixth') or h.startswith('missed by the check as it stood (seventh') or h.startswith('missed by C07 and by C17'):
        return '**missed -> strengthened**'
    if h.startswith('C02 caught it as it stood'):
        return 'caught by C02; owning check **missed -> strengthened**'
    if h.startswith('C17 caught it as it stood'):
        return 'caught by C17; owning check **missed -> strengthened**'
    return 'see history'
L = ['### 10.4 Seeded breakages (independent sub-agents) and which checks catch them', '',
     '%d changes were written by fresh sub-agents that saw only one property text and a scratch worktree of the repository' % n,
     '(nothing from /verif); the later rounds (ids -3/-4, -5/-6, -7/-8, -9/-10) were additionally told which mechanisms the earlier rounds had used. Each was',
     'verified before being kept (`tools/seedtest.sh`): it applies to its base commit, the 30 baseline tests still pass with it, its',
     'demonstration exits 0 on the unmodified tree and non-zero with the change, and the listed checks were run against the changed',
     'tree through `VERIF_REPO`. They are stored under `seeded/<id>/` (patch.diff, demo.py, notes.md, meta.json with the full history).', '',
     '| seed | breaks | needs | caught by (signature) | check as it stood |', '|---|---|---|---|---|']
for k in sorted(T, key=lambda x: (x.split('-')[0], int(x.split('-')[1]))):
    r = T[k]
    cb = '; '.join('%s (%s)' % (c, s) for c, s in r['caught_by'])
    L.append('| %s | %s | %s | %s | %s |' % (k, r['breaks'].replace('|', '/'), r['needs'].replace('|', '/'), cb.replace('|', '/'), status(r)))
missed = [k for k in sorted(T) if not T[k]['history'].startswith('caught') and not T[k]['history'].startswith('a filter_func')]
L += ['', 'Changes that the owning check missed (or would have missed) and the extension each one led to:', '']
for k in missed:
    L.append('* **%s** - %s' % (k, T[k]['history']))
L += ['', 'After these extensions every seeded change is detected by the quick tier of its owning check (C01-4 is a `filter_func` change and belongs to C03, which catches it).', '']
block = '<!-- SEEDTABLE:BEGIN -->\n' + '\n'.join(L) + '\n<!-- SEEDTABLE:END -->\n'
p = os.path.join(HERE, 'DESIGN.md')
s = open(p).read()
if '<!-- SEEDTABLE:BEGIN -->' in s:
    s = re.sub(r'<!-- SEEDTABLE:BEGIN -->.*?<!-- SEEDTABLE:END -->\n', lambda m: block, s, flags=re.S)
else:
    i = s.index('### 10.4 Seeded breakages')
    s = s[:i] + block
open(p, 'w').write(s)
print('seed table regenerated:', n, 'seeds,', len(missed), 'led to extensions')
