#!/venv/bin/python
"""Sensitivity helper: apply one textual mutant to a scratch copy of the package and run a check on it.

  tools/mut.py C01 abacusnbody/data/compaso_halo_catalog.py 'OLD' 'NEW' [--tier quick] [--seed N] [--count K]
The scratch copy lives under /tmp/mut-<pid> and is removed afterwards; /repo is never touched.
"""
import os, shutil, subprocess, sys, argparse
ap = argparse.ArgumentParser()
ap.add_argument('prop'); ap.add_argument('file'); ap.add_argument('old'); ap.add_argument('new')
ap.add_argument('--tier', default='quick'); ap.add_argument('--seed', default='1'); ap.add_argument('--count', type=int, default=1)
ap.add_argument('--also', nargs=3, action='append', default=[], metavar=('FILE', 'OLD', 'NEW'))
a = ap.parse_args()
d = '/tmp/mut-%d' % os.getpid()
shutil.copytree('/repo/abacusnbody', d + '/abacusnbody')
try:
    for f, old, new in [(a.file, a.old, a.new)] + [tuple(x) for x in a.also]:
        p = os.path.join(d, f)
        s = open(p).read()
        if s.count(old) < 1:
            print('MUTANT-NOT-APPLICABLE: pattern not found in', f); sys.exit(3)
        s = s.replace(old, new, a.count)
        open(p, 'w').write(s)
    env = dict(os.environ, VERIF_REPO=d, VERIF_SEED=a.seed)
    r = subprocess.run(['/verif/check', a.prop, '--tier', a.tier], env=env, capture_output=True, text=True)
    out = r.stdout.strip().splitlines()
    print('exit=%d' % r.returncode)
    for l in out[:12]:
        print('  ' + l[:300])
finally:
    shutil.rmtree(d, ignore_errors=True)
    # evidence/replays written by the mutant run are not evidence for the real tree
    subprocess.run(['git', '-C', '/verif', 'checkout', '--', 'evidence'], capture_output=True)
