#!/bin/sh
# tools/seedtest.sh ID N "C01 C02 ..."  -- verify a seeded change (patchN of /tmp/seed-ID-out) and run checks against it
ID=$1; N=$2; CHECKS=${3:-$ID}; TIER=${4:-quick}
PFX=${PFX:-seed}
WT=/tmp/$PFX-$ID; OUT=/tmp/$PFX-$ID-out
git -C $WT checkout -q -- . || exit 2
git -C $WT apply $OUT/patch$N.diff || { echo "PATCH DOES NOT APPLY"; exit 2; }
echo "--- diffstat"; git -C $WT diff --stat | tail -3
if [ -z "$SKIPTESTS" ]; then
echo "--- baseline tests with the change"
(cd $WT && /venv/bin/python -m pytest -q -p no:cacheprovider tests/test_util.py tests/test_tsc.py -k "not test_multi" 2>&1 | tail -2)
fi
echo "--- demo on unmodified /repo (expect 0)"; (cd /tmp && timeout 900 /venv/bin/python $OUT/demo$N.py /repo >${DEMO_OUT:-/tmp/seed-demo.out} 2>&1; echo "exit=$?"; tail -2 ${DEMO_OUT:-/tmp/seed-demo.out})
echo "--- demo on modified tree (expect !=0)"; (cd /tmp && timeout 900 /venv/bin/python $OUT/demo$N.py $WT >${DEMO_OUT:-/tmp/seed-demo.out} 2>&1; echo "exit=$?"; tail -3 ${DEMO_OUT:-/tmp/seed-demo.out})
for P in $CHECKS; do
  echo "--- check $P ($TIER) against the modified tree"
  (cd /verif && VERIF_REPO=$WT ./check $P --tier $TIER 2>&1 | cut -c1-420 | head -9; )
done
git -C $WT checkout -q -- .
(cd /verif && git checkout -q -- evidence 2>/dev/null)
