#!/bin/sh
# Offline set-up: real scipy (+ atheris) from the local wheelhouse into /verif/.deps. Idempotent.
cd "$(dirname "$0")" || exit 2
if [ ! -d .deps/scipy ]; then
  PIP_NO_INDEX=1 /venv/bin/pip install --no-index --find-links /opt/veriftools/wheels --no-deps --target .deps -q scipy atheris || exit 2
fi
/venv/bin/python -c "import hypothesis" 2>/dev/null || PIP_NO_INDEX=1 /venv/bin/pip install --no-index --find-links /opt/veriftools/wheels -q hypothesis || exit 2
mkdir -p evidence .work
exit 0
