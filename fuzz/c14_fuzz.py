"""atheris (libFuzzer) target for property C14 — second engine of the thorough tier.

bytes --atheris.FuzzedDataProvider--> 'raw' descriptor (item size, compression block size,
shuffle, slack, payload repetition, chunk lengths + chunk object types, payload bytes)
--> the same oracle as the Hypothesis check (vt.props.c14._run_raw): compress through the
real BloscCompressor, independent frame parser, decompress the stream cut into the given
chunks into a canary-guarded buffer, compare with the payload and with the single-chunk call.

Run (normally by `./check C14 --tier thorough`):
    /venv/bin/python /verif/fuzz/c14_fuzz.py CORPUS_DIR -runs=N -seed=S -artifact_prefix=DIR/
A property violation is an uncaught exception -> libFuzzer writes crash-<sha1>; the decoded
descriptor is also dumped to $C14_FUZZ_OUT/failure.json.  Coverage feedback is collected from
the package under test only (atheris.instrument_imports(include=['abacusnbody'])).
"""
import json
import os
import sys

sys.path.insert(0, os.path.dirname(os.path.dirname(os.path.abspath(__file__))))
from vt import env  # noqa: E402

env.setup_path()  # [VERIF_REPO or /repo, /verif, shims, ..., .deps]
if '/verif/.deps' not in sys.path:
    sys.path.append('/verif/.deps')

import atheris  # noqa: E402

with atheris.instrument_imports(include=['abacusnbody']):
    import abacusnbody.data.asdf  # noqa: E402,F401

from vt.core import Reject, Violation, dumps  # noqa: E402
from vt.props import c14  # noqa: E402


class _FDP:
    """Adapter: the decode order lives in c14.decode_fuzz; the byte consumption is atheris'."""

    def __init__(self, data):
        self.f = atheris.FuzzedDataProvider(data)

    def int_in_range(self, a, b):
        return self.f.ConsumeIntInRange(a, b)

    def take(self, n):
        return self.f.ConsumeBytes(n)

    def remaining(self):
        return self.f.remaining_bytes()


def TestOneInput(data):
    d = c14.decode_fuzz(_FDP(data))
    try:
        c14._run_raw(d)
    except Reject:
        return
    except Violation:
        out = os.environ.get('C14_FUZZ_OUT')
        if out:
            with open(os.path.join(out, 'failure.json'), 'w') as f:
                f.write(dumps(d))
        raise


def main():
    if '--decode' in sys.argv:  # print the descriptor of an input file (debugging aid)
        with open(sys.argv[sys.argv.index('--decode') + 1], 'rb') as f:
            print(json.dumps(c14.decode_fuzz(_FDP(f.read()))))
        return
    atheris.Setup(sys.argv, TestOneInput)
    atheris.Fuzz()


if __name__ == '__main__':
    main()
