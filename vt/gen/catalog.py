"""Synthetic CompaSO catalog builder + catalog model (DESIGN 3.1 / 3.2).

A *descriptor* (plain JSON) fully determines a catalog tree on disk and the model of
what every halo row must own.  Bulk values (halo statistics, particle payload words) are a
pure function of descriptor['seed'] (numpy PCG64), so a descriptor replays exactly.

Tree written (box layout):
  <root>/Sim/halos/z0.500/halo_info/halo_info_{s:03d}.asdf
  <root>/Sim/halos/z0.500/halo_{rv,pid}_{A,B}/halo_{rv,pid}_{A,B}_{s:03d}.asdf
  <root>/cleaning/Sim/z0.500/cleaned_halo_info/cleaned_halo_info_{s:03d}.asdf
  <root>/cleaning/Sim/z0.500/cleaned_rvpid/cleaned_rvpid_{s:03d}.asdf
Light-cone layout:
  <root>/halo_light_cones/Sim/z0.500/{lc_halo_info.asdf, lc_pid_rv.asdf}
"""
import os
import shutil

import numpy as np
from hypothesis import strategies as st

I16_EXTREMES = np.array([0, 1, -1, 32000, -32000, 32767, -32768, 16000], dtype=np.int16)
RADII = ['r10', 'r25', 'r33', 'r50', 'r67', 'r75', 'r90', 'r95', 'r98']
COMS = ['_com', '_L2com']
N_EULER = 65340

# ---------------------------------------------------------------------------------------------
# strategies


def halo_strategy(max_np=4, max_gap=3, max_merge=3):
    ab = st.tuples(st.integers(0, max_gap), st.integers(0, max_np), st.integers(0, max_merge), st.integers(0, 2))
    return st.fixed_dictionaries({'A': ab, 'B': ab, 'gone': st.sampled_from([False, False, False, True])})


@st.composite
def catalog_strategy(draw, max_slabs=4, max_halos=6, layouts=('box',), min_slabs=1, compressions=('none', 'none', 'zlib', 'blsc')):
    layout = draw(st.sampled_from(list(layouts)))
    nslab = 1 if layout == 'lc' else draw(st.integers(min_slabs, max_slabs))
    # superslab numbers: mostly small; sometimes around the 2->3 digit step of the %03d file names or with 4 digits (every index of one
    # catalog keeps the same digit count beyond 3, so that sorted-path order and numeric order of a directory listing agree)
    start = draw(st.one_of(st.integers(0, 5), st.integers(0, 5), st.integers(0, 5), st.sampled_from([96, 1000, 1234, 4095])))
    steps = draw(st.lists(st.integers(1, 3), min_size=nslab, max_size=nslab))
    inds, cur = [], start
    for s in steps:
        inds.append(cur)
        cur += s
    slabs = []
    for i in inds:
        nh = draw(st.one_of(st.sampled_from([0, 1, 2]), st.integers(0, max_halos)))
        if layout == 'lc':
            nh = max(nh, 1)
        halos = draw(st.lists(halo_strategy(), min_size=nh, max_size=nh))
        slabs.append({'index': i, 'halos': [{'A': list(h['A']), 'B': list(h['B']), 'gone': h['gone']} for h in halos], 'tailA': draw(st.integers(0, 2)), 'tailB': draw(st.integers(0, 2))})
    box = draw(st.sampled_from([1.0, 32.0, 500.0, 2000.0, 123.456, 7.5]))
    velz = draw(st.sampled_from([1.0, 3200.0, 208774.9025637363, 500.0, 0.37, 1234.5, 32.0]))
    return {
        'layout': layout,
        'box': box,
        'velz': velz,
        'ppd': draw(st.sampled_from([64, 1, 6912, 32767, 100])),
        'nprev': draw(st.integers(1, 3)),
        'compression': draw(st.sampled_from(list(compressions))),
        'cleanlayout': draw(st.sampled_from(['std', 'std', 'std', 'flat', 'insim', 'insim-flat'])),
        # header scalars as Python ints where the value is integral (YAML written by other tools), else floats as Abacus writes them
        'int_header': draw(st.sampled_from([False, False, False, True])),
        'seed': draw(st.integers(0, 2**32 - 1)),
        'slabs': slabs,
    }


# ---------------------------------------------------------------------------------------------
# builder


def _i16(rng, shape):
    a = rng.integers(-32768, 32768, size=shape, dtype=np.int64).astype(np.int16)
    m = rng.random(shape) < 0.3
    a[m] = rng.choice(I16_EXTREMES, size=int(m.sum()))
    return a


def _f32_decades(rng, shape, lo=-5, hi=-1):
    a = (10.0 ** rng.uniform(lo, hi, size=shape)).astype(np.float32)
    # a stored statistic can be exactly 0 (a halo without an L2 subhalo, a degenerate group)
    a[rng.random(shape) < 0.08] = 0
    return a


def _euler(rng, n):
    a = rng.integers(0, N_EULER, size=n).astype(np.uint16)
    m = rng.random(n) < 0.15
    a[m] = rng.choice(np.array([0, N_EULER - 1, 44, 45, 121 * 45 - 1, 121 * 45], dtype=np.uint16), size=int(m.sum()))
    return a


def make_raw_halo_info(rng, n, slab_index, lc=False):
    """All raw halo_info columns for one superslab (names/dtypes/shapes as in the repo's sample files)."""
    d = {}
    ids = (np.uint64(slab_index + 1) * np.uint64(10**9) + rng.permutation(10**6)[:n].astype(np.uint64)).astype(np.uint64)
    d['id'] = ids
    d['N'] = rng.integers(1, 2**31, size=n).astype(np.uint32)
    d['L0_N'] = rng.integers(1, 2**31, size=n).astype(np.uint32)
    d['L2_N'] = rng.integers(0, 2**31, size=(n, 5)).astype(np.uint32)
    d['ntaggedA'] = rng.integers(0, 1000, size=n).astype(np.uint32)
    d['ntaggedB'] = rng.integers(0, 1000, size=n).astype(np.uint32)
    for com in COMS:
        d['x' + com] = rng.uniform(-0.5, 0.5, size=(n, 3)).astype(np.float32)
        d['v' + com] = (rng.normal(size=(n, 3)) * 1e-3).astype(np.float32)
        d['sigmav3d' + com] = _f32_decades(rng, n)
        d['meanSpeed' + com] = _f32_decades(rng, n)
        d['sigmav3d_r50' + com] = _f32_decades(rng, n)
        d['meanSpeed_r50' + com] = _f32_decades(rng, n)
        d['r100' + com] = _f32_decades(rng, n)
        d['vcirc_max' + com] = _f32_decades(rng, n)
        for r in RADII:
            d[r + com + '_i16'] = _i16(rng, n)
        d['rvcirc_max' + com + '_i16'] = _i16(rng, n)
        d['sigmar' + com + '_i16'] = _i16(rng, (n, 3))
        d['sigman' + com + '_i16'] = _i16(rng, (n, 3))
        for rnv in ('sigmar', 'sigman', 'sigmav'):
            d[rnv + '_eigenvecs' + com + '_u16'] = _euler(rng, n)
        # principal dispersion ratios: mostly consistent with the format (min^2+max^2 <= 1)
        mx = rng.integers(0, 32001, size=n)
        lim = np.floor(np.sqrt(np.maximum(32000.0**2 - mx.astype(np.float64) ** 2, 0))).astype(np.int64)
        mn = (rng.random(n) * np.minimum(lim, mx)).astype(np.int64)
        wild = rng.random(n) < 0.15
        mnw = _i16(rng, n)
        mxw = _i16(rng, n)
        d['sigmavMin_to_sigmav3d' + com + '_i16'] = np.where(wild, mnw, mn).astype(np.int16)
        d['sigmavMax_to_sigmav3d' + com + '_i16'] = np.where(wild, mxw, mx).astype(np.int16)
        d['sigmavrad_to_sigmav3d' + com + '_i16'] = _i16(rng, n)
        d['sigmavtan_to_sigmav3d' + com + '_i16'] = _i16(rng, n)
    d['SO_central_particle'] = rng.uniform(-0.5, 0.5, size=(n, 3)).astype(np.float32)
    d['SO_central_density'] = _f32_decades(rng, n, 0, 5)
    d['SO_radius'] = _f32_decades(rng, n)
    d['SO_L2max_central_particle'] = rng.uniform(-0.5, 0.5, size=(n, 3)).astype(np.float32)
    d['SO_L2max_central_density'] = _f32_decades(rng, n, 0, 5)
    d['SO_L2max_radius'] = _f32_decades(rng, n)
    if lc:
        keep = {k: v for k, v in d.items() if 'L2' in k}
        keep['N'] = d['N']
        keep['N_interp'] = rng.integers(1, 2**31, size=n).astype(np.uint32)
        keep['index_halo'] = rng.integers(0, 2**40, size=n).astype(np.int64)
        keep['origin'] = rng.integers(0, 9, size=n).astype(np.int8)
        pa = rng.uniform(-900, 900, size=(n, 3)).astype(np.float32)
        pa[rng.random(n) < 0.4] = 0.0  # "average not available"
        keep['pos_avg'] = pa
        keep['pos_interp'] = rng.uniform(-900, 900, size=(n, 3)).astype(np.float32)
        keep['vel_avg'] = rng.normal(size=(n, 3)).astype(np.float32) * 300
        keep['vel_interp'] = rng.normal(size=(n, 3)).astype(np.float32) * 300
        keep['redshift_interp'] = rng.uniform(0, 3, size=n).astype(np.float32)
        keep['haloindex'] = rng.integers(0, 2**40, size=n).astype(np.uint64)
        d = keep
    return d


class Catalog:
    pass


def _write(path, header, data, compression):
    import asdf

    from vt import env

    os.makedirs(os.path.dirname(path), exist_ok=True)
    af = asdf.AsdfFile({'header': dict(header), 'data': dict(data)})
    if compression == 'none':
        af.write_to(path)
    elif compression == 'zlib':
        af.write_to(path, all_array_compression='zlib')
    elif compression == 'blsc':
        env.register_asdf()
        with env.fixture_blsc_writer():
            af.write_to(path, all_array_compression='blsc')
    else:
        raise ValueError(compression)


def build(desc, root):
    """Write the catalog described by `desc` under `root` (must not exist). Returns a Catalog with
    paths, the raw columns per slab, and the raw particle arrays (the model works from these)."""
    rng = np.random.Generator(np.random.PCG64(int(desc['seed'])))
    lc = desc['layout'] == 'lc'
    cat = Catalog()
    cat.desc = desc
    cat.root = root
    cat.lc = lc
    def _num(v):
        v = float(v)
        return int(v) if (desc.get('int_header') and v == int(v)) else v

    header = {
        'BoxSize': _num(desc['box']),
        'VelZSpace_to_kms': _num(desc['velz']),
        'ppd': _num(desc['ppd']),
        'SimName': 'Sim',
        'Redshift': 0.5,
        'OutputType': 'GroupOutput',
        'ParticleMassHMsun': 2.1e9,
    }
    prev = [0.575 + 0.1 * i for i in range(int(desc['nprev']))]
    cheader = dict(header, TimeSliceRedshiftsPrev=prev, NumTimeSliceRedshiftsPrev=len(prev))
    cat.header = header
    cat.nprev = len(prev)
    comp = desc['compression']
    cat.slabs = []
    if lc:
        cat.groupdir = os.path.join(root, 'halo_light_cones', 'Sim', 'z0.500')
        header = dict(cheader, SimSet='AbacusSummit')
        cat.header = header
    else:
        cat.groupdir = os.path.join(root, 'Sim', 'halos', 'z0.500')
        # the four cleaning-directory layouts the reader's path logic documents:
        #   std        <root>/cleaning/Sim/z0.500/cleaned_halo_info/cleaned_halo_info_000.asdf
        #   flat       <root>/cleaning/Sim/z0.500/cleaned_halo_info_000.asdf
        #   insim      <root>/Sim/cleaning/z0.500/cleaned_halo_info/cleaned_halo_info_000.asdf
        #   insim-flat <root>/Sim/cleaning/z0.500/cleaned_halo_info_000.asdf
        lay = desc.get('cleanlayout', 'std')
        if lay.startswith('insim'):
            cat.cleandir = os.path.join(root, 'Sim', 'cleaning')
            cat.cleanz = os.path.join(cat.cleandir, 'z0.500')
        else:
            cat.cleandir = os.path.join(root, 'cleaning')
            cat.cleanz = os.path.join(cat.cleandir, 'Sim', 'z0.500')
        cat.cleanflat = lay.endswith('flat')
    for sl in desc['slabs']:
        s = int(sl['index'])
        halos = sl['halos']
        if sl.get('repeat'):
            # a large superslab described compactly: the listed halo specifications repeated `repeat` times
            halos = list(halos) * int(sl['repeat'])
        n = len(halos)
        S = Catalog()
        S.index = s
        S.n = n
        S.raw = make_raw_halo_info(rng, n, s, lc=lc)
        S.part = {}
        S.clean = {}
        gone = np.array([bool(h['gone']) for h in halos], dtype=bool)
        nmerge_tot = np.zeros(n, dtype=np.int64)
        for X in ('A',) if lc else ('A', 'B'):
            off = 0
            moff = 0
            npstart = np.zeros(n, dtype=np.uint64)
            npout = np.zeros(n, dtype=np.uint32)
            mstart = np.zeros(n, dtype=np.int64)
            mout = np.zeros(n, dtype=np.uint32)
            for i, h in enumerate(halos):
                gap, k, km, mgap = [int(v) for v in h[X]]
                off += gap
                npstart[i] = off
                npout[i] = k
                off += k
                moff += mgap
                mstart[i] = moff
                # a cleaned-away halo (N_total == 0) keeps whatever was merged into it: the statement only takes its *original*
                # particles away (real merger trees rarely produce this, the format allows it)
                mout[i] = km
                moff += km
                nmerge_tot[i] += km
            off += int(sl.get('tail' + X, 0))
            S.raw['npstart' + X] = npstart
            S.raw['npout' + X] = npout
            S.part[X] = {
                'rvint': rng.integers(-(2**31), 2**31, size=(off, 3)).astype(np.int32),
                'packedpid': rng.integers(0, 2**63, size=off, dtype=np.uint64) * np.uint64(2) + rng.integers(0, 2, size=off, dtype=np.uint64),
            }
            S.clean[X] = {
                'npstart_merge': mstart,
                'npout_merge': mout,
                'rvint': rng.integers(-(2**31), 2**31, size=(moff, 3)).astype(np.int32),
                'packedpid': rng.integers(0, 2**63, size=moff, dtype=np.uint64) * np.uint64(2) + rng.integers(0, 2, size=moff, dtype=np.uint64),
            }
        if not lc:
            S.raw['ntaggedA'] = np.minimum(S.raw['ntaggedA'], S.raw['npoutA'])
            S.raw['ntaggedB'] = np.minimum(S.raw['ntaggedB'], S.raw['npoutB'])
        # cleaning columns
        N = S.raw['N'].astype(np.int64)
        N_merge = nmerge_tot * 7
        C = {}
        if not lc:
            C['N_merge'] = N_merge.astype(np.uint32)
            C['N_total'] = np.where(gone, 0, np.minimum(N + N_merge, 2**32 - 1)).astype(np.uint32)
            for X in 'AB':
                C['npstart%s_merge' % X] = S.clean[X]['npstart_merge']
                C['npout%s_merge' % X] = S.clean[X]['npout_merge']
            C['haloindex'] = rng.integers(0, 2**40, size=n).astype(np.uint64)
            C['is_merged_to'] = np.where(gone, rng.integers(0, 2**40, size=n), -1).astype(np.int64)
        C['haloindex_mainprog'] = rng.integers(-1, 2**40, size=n).astype(np.int64)
        C['N_mainprog'] = rng.integers(0, 2**31, size=(n, cat.nprev)).astype(np.uint32)
        C['vcirc_max_L2com_mainprog'] = (rng.uniform(0, 2000, size=(n, cat.nprev))).astype(np.float32)
        C['sigmav3d_L2com_mainprog'] = (rng.uniform(0, 2000, size=(n, cat.nprev))).astype(np.float32)
        C['v_L2com_mainprog'] = (rng.normal(size=(n, 3)) * 500).astype(np.float32)
        S.cleanraw = C
        cat.slabs.append(S)

        if lc:
            data = dict(S.raw)
            data.update(C)
            _write(os.path.join(cat.groupdir, 'lc_halo_info.asdf'), header, data, comp)
            # one shared particle file, already unpacked
            npart = len(S.part['A']['rvint'])
            S.lcpart = {
                'pos': rng.uniform(-900, 900, size=(npart, 3)).astype(np.float32),
                'vel': (rng.normal(size=(npart, 3)) * 300).astype(np.float32),
                'pid': rng.integers(0, 2**62, size=npart).astype(np.int64),
            }
            _write(os.path.join(cat.groupdir, 'lc_pid_rv.asdf'), header, S.lcpart, comp)
        else:
            _write(os.path.join(cat.groupdir, 'halo_info', 'halo_info_%03d.asdf' % s), header, S.raw, comp)
            for X in 'AB':
                _write(os.path.join(cat.groupdir, 'halo_rv_' + X, 'halo_rv_%s_%03d.asdf' % (X, s)), header, {'rvint': S.part[X]['rvint']}, comp)
                _write(os.path.join(cat.groupdir, 'halo_pid_' + X, 'halo_pid_%s_%03d.asdf' % (X, s)), header, {'packedpid': S.part[X]['packedpid']}, comp)
            cdir = cat.cleanz
            _write(os.path.join(cdir, '' if cat.cleanflat else 'cleaned_halo_info', 'cleaned_halo_info_%03d.asdf' % s), cheader, C, comp)
            _write(
                os.path.join(cdir, '' if cat.cleanflat else 'cleaned_rvpid', 'cleaned_rvpid_%03d.asdf' % s),
                cheader,
                {'rvint_A': S.clean['A']['rvint'], 'rvint_B': S.clean['B']['rvint'], 'packedpid_A': S.clean['A']['packedpid'], 'packedpid_B': S.clean['B']['packedpid']},
                comp,
            )
    return cat


def halo_info_files(cat):
    if cat.lc:
        return [os.path.join(cat.groupdir, 'lc_halo_info.asdf')]
    return [os.path.join(cat.groupdir, 'halo_info', 'halo_info_%03d.asdf' % S.index) for S in cat.slabs]


def destroy(cat):
    shutil.rmtree(cat.root, ignore_errors=True)


# ---------------------------------------------------------------------------------------------
# model


def model_particles(cat, slab_pos, row, X, cleaned):
    """Raw records that halo `row` of slab number `slab_pos` (position in cat.slabs) must own in subsample X.
    Returns (rvint[k,3] int32, packedpid[k] uint64). Box layout only."""
    S = cat.slabs[slab_pos]
    st_ = int(S.raw['npstart' + X][row])
    k = int(S.raw['npout' + X][row])
    gone = bool(S.cleanraw['N_total'][row] == 0) if cleaned else False
    rv = [S.part[X]['rvint'][st_ : st_ + k]] if not gone else []
    pp = [S.part[X]['packedpid'][st_ : st_ + k]] if not gone else []
    if cleaned:
        ms = int(S.clean[X]['npstart_merge'][row])
        mk = int(S.clean[X]['npout_merge'][row])
        rv.append(S.clean[X]['rvint'][ms : ms + mk])
        pp.append(S.clean[X]['packedpid'][ms : ms + mk])
    rv = np.concatenate(rv) if rv else np.zeros((0, 3), np.int32)
    pp = np.concatenate(pp) if pp else np.zeros(0, np.uint64)
    return rv.reshape(-1, 3), pp


def scratch_root(tag='cat'):
    import tempfile

    base = os.environ.get('VERIF_SCRATCH')
    if not base:
        from vt import env

        base = os.path.join(env.VERIF, '.work')
    os.makedirs(base, exist_ok=True)
    return tempfile.mkdtemp(prefix=tag + '-', dir=base)
