"""Shared ASDF fixture writer (C16, C20; usable by any file-level check).

The tree layout the repository's readers expect is

    {'header': {...}, 'data': {colname: ndarray, ...}}

`write_asdf(path, header, data, compression)` writes exactly that with the array
compression asked for.  'blsc' goes through the repository's own ASDF extension
(registered explicitly by vt.env.register_asdf) and, for *writing only*, through
vt.env.fixture_blsc_writer (asdf 5.4 passes an ndarray to Compressor.compress
whereas the repository asserts the memoryview attribute `.contiguous`, DESIGN 1).
Reading is never wrapped.

Nothing here is random: the file content is a pure function of the arguments.
"""
import os
import shutil
import tempfile

import numpy as np

from vt import env

COMPRESSIONS = (None, 'zlib', 'bzp2', 'blsc')


def norm_compression(c):
    """'none'/''/None -> None; otherwise one of 'zlib', 'bzp2', 'blsc'."""
    if c in (None, '', 'none', 'None'):
        return None
    if c not in ('zlib', 'bzp2', 'blsc'):
        raise ValueError('unknown compression %r' % (c,))
    return c


def write_asdf(path, header, data, compression=None, data_key='data', header_key='header', extra_tree=None):
    """Write {'header': header, 'data': data} to `path`.

    header: dict of plain Python values; data: dict name -> ndarray (insertion order is
    the order of the keys in the YAML tree); compression in {None,'zlib','bzp2','blsc'}
    applies to every array.  Arrays are written as C-contiguous copies, so the binary
    block of a column is exactly `np.ascontiguousarray(arr).tobytes()`.
    Returns `path`.
    """
    import asdf

    compression = norm_compression(compression)
    tree = {}
    if header is not None:
        tree[header_key] = dict(header)
    tree[data_key] = {str(k): np.ascontiguousarray(v) for k, v in data.items()}
    if extra_tree:
        tree.update(extra_tree)
    af = asdf.AsdfFile(tree)
    if compression is None:
        af.write_to(path)
    elif compression == 'blsc':
        env.register_asdf()
        with env.fixture_blsc_writer():
            af.write_to(path, all_array_compression='blsc')
    else:
        af.write_to(path, all_array_compression=compression)
    return path


def block_compressions(path):
    """Compression labels of the binary blocks of an ASDF file, in file order
    (b'\\0\\0\\0\\0' means uncompressed).  Parsed from the block headers directly
    (magic d3 42 4c 4b, u16 header size, u32 flags, 4-byte compression) so that a
    fixture can be checked to be compressed the way it was asked for without
    going through the reader under test."""
    import struct

    out = []
    with open(path, 'rb') as f:
        buf = f.read()
    magic = b'\xd3BLK'
    pos = buf.find(b'\n...\n')
    if pos < 0:
        return out
    pos = buf.find(magic, pos)
    while pos >= 0 and pos + 54 <= len(buf):
        hsize, flags = struct.unpack('>HI', buf[pos + 4 : pos + 10])
        comp = buf[pos + 10 : pos + 14]
        alloc, used, _data = struct.unpack('>QQQ', buf[pos + 14 : pos + 38])
        out.append(comp)
        nxt = pos + 6 + hsize + alloc
        if nxt + 4 <= len(buf) and buf[nxt : nxt + 4] == magic:
            pos = nxt
        else:
            break
    return out


def scratch_dir(tag='asdf'):
    """A fresh directory under the shard's scratch area (VERIF_SCRATCH), or under
    /verif/.work when run by hand.  The caller removes it with `remove_dir`."""
    base = os.environ.get('VERIF_SCRATCH')
    if not base:
        base = os.path.join(env.VERIF, '.work')
    os.makedirs(base, exist_ok=True)
    return tempfile.mkdtemp(prefix=tag + '-', dir=base)


def remove_dir(path):
    shutil.rmtree(path, ignore_errors=True)


def fill_bytes(seed, nbytes):
    """Deterministic pseudo-random bytes: pure function of (seed, nbytes)."""
    rng = np.random.Generator(np.random.PCG64(int(seed)))
    return rng.bytes(int(nbytes))


def random_array(seed, shape, dtype):
    """Array of the given shape/dtype whose *bytes* are pseudo-random (so that every
    record is unique with overwhelming probability and a wrong offset cannot alias to
    a right answer).  Float arrays therefore contain arbitrary bit patterns incl. NaNs;
    use it only where values are compared as bytes."""
    dt = np.dtype(dtype)
    n = int(np.prod(shape, dtype=np.int64)) if len(shape) else 1
    raw = fill_bytes(seed, n * dt.itemsize)
    return np.frombuffer(raw, dtype=dt).reshape(shape).copy()
