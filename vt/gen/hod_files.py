"""Fixture writer for the halo+particle *subsample* files that `AbacusHOD.staging()` reads.

Layout (read off `abacusnbody/hod/abacus_hod.py:staging` and the writer in
`abacusnbody/hod/prepare_sim.py:prepare_slab`):

  <sim_dir>/<sim>/halos/z%4.3f/halo_info/halo_info_%03d.asdf      header only is read (one per slab; the *number*
                                                                  of files is what chunking divides)
  <sim_dir>/<sim>/z%4.3f/lc_halo_info.asdf                        light-cone variant (one file; header + LightConeOrigins)
  <subsample_dir>/<sim>/z%4.3f/halos_xcom_%d_seed600_abacushod_oldfenv[_MT]_new.h5            dataset 'halos'
  <subsample_dir>/<sim>/z%4.3f/particles_xcom_%d_seed600_abacushod_oldfenv[_MT][_withranks]_new.h5   dataset 'particles'

`halos` / `particles` are one-dimensional structured datasets with the dtypes that
prepare_sim produces (float32 positions/velocities/radii from the halo catalog,
uint64 halo id, uint32 N, float64 for everything prepare_sim attaches, int64 particle halo_id).

Everything is a pure function of the descriptor.  Every per-halo attribute is a
*distinct injective function of the halo key* (= the rank of its id among all ids of
the fixture): an attribute-specific scramble of the keys placed in an attribute-specific
value band.  A row that ends up at the wrong place, a column swapped with another
column, or a sort by the wrong column cannot alias to the right answer.

`remove_files(root)` deletes every file below root (directories stay for the next case).
`build(desc, root)` writes the files and returns a `Fixture` holding the arrays *as
constructed* (the reference; it is never read back from disk).
"""
import os
import shutil

import numpy as np

SEED_NAME = 'seed600_abacushod_oldfenv'
SIM_NAME = 'AbacusVerif_c000_ph000'
PRIMARY_Z = [0.1, 0.5, 0.8, 1.1]
SECONDARY_Z = [0.575, 0.95]
ORDERS = ['increasing', 'decreasing', 'reversed', 'interleaved', 'shuffled', 'slab-sorted-shuffled', 'explicit']

# attribute slots (each gets its own 4096-wide value band)
_SLOT = {
    'x': 1, 'y': 2, 'z': 3, 'vx': 4, 'vy': 5, 'vz': 6, 'multi': 7, 'randoms': 8,
    'gx': 9, 'gy': 10, 'gz': 11, 'ex': 12, 'ey': 13, 'ez': 14, 'sigma': 15, 'r98': 16, 'r25': 17,
    'r90': 18,
}


def halo_dtype(veldev_1d=False, id_dtype='<u8'):
    vshape = () if veldev_1d else (3,)
    return np.dtype(
        [
            ('id', id_dtype),
            ('npstartA', '<f8'),
            ('npoutA', '<f8'),
            ('N', '<u4'),
            ('x_L2com', '<f4', (3,)),
            ('v_L2com', '<f4', (3,)),
            ('sigmav3d_L2com', '<f4'),
            ('r25_L2com', '<f4'),
            ('r90_L2com', '<f4'),
            ('r98_L2com', '<f4'),
            ('mask_subsample', '?'),
            ('multi_halos', '<f8'),
            ('fenv_rank', '<f8'),
            ('deltac_rank', '<f8'),
            ('shear_rank', '<f8'),
            ('randoms', '<f8'),
            ('randoms_exp', '<f8', vshape),
            ('randoms_gaus_vrms', '<f8', vshape),
        ]
    )


def part_dtype(rank_fields=()):
    fields = [('pos', '<f4', (3,)), ('vel', '<f4', (3,))]
    for r in rank_fields:
        fields.append((r, '<f8'))
    fields += [
        ('downsample_halo', '<f8'),
        ('halo_vel', '<f8', (3,)),
        ('halo_mass', '<f8'),
        ('Np', '<f8'),
        ('halo_id', '<i8'),
        ('randoms', '<f8'),
        ('halo_deltac', '<f8'),
        ('halo_fenv', '<f8'),
        ('halo_shear', '<f8'),
    ]
    return np.dtype(fields)


def chunk_range(nfiles, chunk, n_chunks):
    """Slab sub-range a chunk owns: ceil(nfiles/n_chunks) consecutive slabs per chunk
    (chunk == -1 means 'no chunking' and behaves as chunk 0)."""
    per = -(-nfiles // n_chunks)
    c = 0 if chunk == -1 else chunk
    start = c * per
    end = min(start + per, nfiles)
    return start, end


def valid_chunks(nfiles, n_chunks):
    return [c for c in range(n_chunks) if chunk_range(nfiles, c, n_chunks)[0] < nfiles]


def uses_mt(desc):
    t = desc['tracers']
    return bool(t.get('ELG') or t.get('QSO') or desc.get('force_mt'))


class Fixture:
    pass


def _ids(desc, H, rng):
    """H distinct ids, sorted ascending.  id scale imitates Abacus (slab * 1e12 + counter) or is small."""
    scale = desc.get('id_scale', 'small')
    if scale == 'small':
        gaps = rng.integers(1, 4, size=H)
        base = int(desc.get('id_base', 0))
    elif scale == 'dense':
        gaps = np.ones(H, dtype=np.int64)
        base = int(desc.get('id_base', 0))
    else:  # 'abacus': 10^12-sized jumps now and then, values up to ~1e15
        gaps = rng.integers(1, 1000, size=H)
        jump = rng.random(H) < 0.25
        gaps = gaps + jump * rng.integers(1, 40, size=H) * 10**12
        base = int(desc.get('id_base', 0))
    ids = base + np.cumsum(gaps.astype(np.int64))
    return ids.astype(np.int64)


def _assign(desc, nh, rng):
    """Returns, per slab, the list of halo *keys* (ranks in the sorted id list) in file order."""
    order = desc['order']
    H = int(sum(nh))
    ns = len(nh)
    keys = list(range(H))
    if order == 'increasing':
        seq = keys
        out, p = [], 0
        for n in nh:
            out.append(seq[p : p + n])
            p += n
        return out
    if order == 'decreasing':  # blocks in descending order, ascending inside a slab
        out, p = [], H
        for n in nh:
            out.append(keys[p - n : p])
            p -= n
        return out
    if order == 'reversed':  # fully descending
        seq = keys[::-1]
        out, p = [], 0
        for n in nh:
            out.append(seq[p : p + n])
            p += n
        return out
    if order == 'interleaved':  # deal ascending ids round-robin over the slabs that still have room
        out = [[] for _ in nh]
        s = 0
        for k in keys:
            tries = 0
            while len(out[s % ns]) >= nh[s % ns]:
                s += 1
                tries += 1
                if tries > ns:
                    raise AssertionError('capacity')
            out[s % ns].append(k)
            s += 1
        return out
    if order == 'explicit':  # the descriptor lists the rank of the id stored at each file position
        perm = [int(v) for v in desc['perm']]
        if sorted(perm) != keys:
            raise ValueError('perm is not a permutation of range(H)')
    else:
        perm = [int(v) for v in rng.permutation(H)]
    out, p = [], 0
    for n in nh:
        out.append(perm[p : p + n])
        p += n
    if order == 'slab-sorted-shuffled':  # random membership, ascending inside each slab
        out = [sorted(o) for o in out]
    return out


def _band(slot, key, frac):
    """Injective in (slot, key): slot*4096 + key + 1 + frac/64, exactly representable in float32."""
    return slot * 4096.0 + (key + 1.0) + frac / 64.0


def remove_files(root):
    for dp, _dn, fns in os.walk(root):
        for fn in fns:
            os.unlink(os.path.join(dp, fn))


def plan(desc):
    """(sorted ids, per-slab key lists in file order, rng positioned after these draws) - no files written."""
    rng = np.random.Generator(np.random.PCG64(int(desc['fill_seed'])))
    nh = [int(n) for n in desc['nh']]
    ids = _ids(desc, int(sum(nh)), rng)
    assign = _assign(desc, nh, rng)
    return ids, assign, rng


def build(desc, root):
    """Write the fixture below `root`; return a Fixture with the reference arrays and the constructor arguments."""
    ids, assign, rng = plan(desc)  # ids ascending; key k <-> ids[k]
    nh = [int(n) for n in desc['nh']]
    npart = [int(n) for n in desc['np']]
    ns = len(nh)
    assert ns >= 1 and len(npart) == ns
    H = int(sum(nh))
    halo_lc = bool(desc.get('halo_lc'))
    z = float(desc['z_mock'])
    primary = halo_lc or (z in PRIMARY_Z)
    want_ranks = bool(desc['want_ranks'])
    veldev_1d = bool(desc.get('veldev_1d'))
    mt = uses_mt(desc)
    sim = SIM_NAME
    ztag = 'z%4.3f' % z

    sim_dir = os.path.join(root, 'sim')
    sub_dir = os.path.join(root, 'subsample')
    out_dir = os.path.join(root, 'mocks')
    sdir = os.path.join(sub_dir, sim, ztag)
    # directories may be reused from an earlier case of the same process (rmdir is the expensive call on this
    # file system); files never are: the caller removes every file after a case and we insist on that here
    os.makedirs(sdir, exist_ok=True)
    os.makedirs(out_dir, exist_ok=True)
    if os.listdir(sdir):
        raise RuntimeError('stale files in %s' % sdir)

    # ---- header ----
    Mpart = [2109081520.453063, 5.0e8, 1.0e10][int(desc.get('mpart_ix', 0)) % 3]
    box = [2000.0, 500.0, 1185.0][int(desc.get('box_ix', 0)) % 3]
    header = {
        'H0': 67.36,
        'BoxSize': box,
        'BoxSizeHMpc': box,
        'ParticleMassHMsun': Mpart,
        'VelZSpace_to_kms': 123456.0 + box,
        'SimName': sim,
        'Redshift': z,
    }
    if halo_lc:
        header['LightConeOrigins'] = [-990.0, -990.0, -990.0, -990.0, -990.0, -2990.0, -990.0, -2990.0, -990.0]
    import asdf

    if halo_lc:
        hdir = os.path.join(sim_dir, sim, ztag)
        os.makedirs(hdir, exist_ok=True)
        fns = [os.path.join(hdir, 'lc_halo_info.asdf')]
    else:
        hdir = os.path.join(sim_dir, sim, 'halos', ztag, 'halo_info')
        os.makedirs(hdir, exist_ok=True)
        if os.listdir(hdir):
            raise RuntimeError('stale files in %s' % hdir)
        fns = [os.path.join(hdir, 'halo_info_%03d.asdf' % s) for s in range(ns)]
    asdf.AsdfFile({'header': dict(header), 'data': {}}).write_to(fns[0])
    for fn in fns[1:]:  # identical headers: staging() reads whichever file the directory listing returns first
        shutil.copyfile(fns[0], fn)

    # ---- halos ----
    frac = rng.integers(0, 64, size=(H, 24))  # per (key, attribute) noise in 1/64 units
    Nnoise = rng.integers(0, 3, size=H)
    hd = halo_dtype(veldev_1d, desc.get('id_dtype', '<u8'))
    rec = np.zeros(H, dtype=hd)  # indexed by key
    k = np.arange(H)
    rec['id'] = ids
    # Each attribute group is an injective function of the key through its *own* scramble of the keys, so that no
    # attribute is monotone in the id: sorting by the wrong column can then not coincide with sorting by id.
    sc = {g: rng.permutation(H) for g in ('N', 'pos', 'vel', 'sigma', 'r', 'multi', 'randoms', 'deltac', 'fenv', 'shear', 'gaus', 'exp')}
    rec['N'] = 50 + 3 * sc['N'] + Nnoise
    for j, a in enumerate(['x', 'y', 'z']):
        rec['x_L2com'][:, j] = _band(_SLOT[a], sc['pos'], frac[:, j])
    for j, a in enumerate(['vx', 'vy', 'vz']):
        rec['v_L2com'][:, j] = -_band(_SLOT[a], sc['vel'], frac[:, 3 + j])
    rec['sigmav3d_L2com'] = _band(_SLOT['sigma'], sc['sigma'], frac[:, 6])
    # r98 increasing and r25 decreasing in the same scrambled key: the ratio r98/r25 (float32) stays injective
    rec['r98_L2com'] = _band(_SLOT['r98'], sc['r'], frac[:, 7]) / 65536.0
    rec['r25_L2com'] = _band(_SLOT['r25'], H - 1 - sc['r'], frac[:, 8]) / 262144.0
    rec['r90_L2com'] = _band(_SLOT['r90'], sc['r'], frac[:, 9]) / 65536.0
    rec['mask_subsample'] = True
    rec['multi_halos'] = 1.0 + (sc['multi'] + 1.0) / 8.0 + frac[:, 10] / 1024.0
    Hs = max(H, 1)
    rec['randoms'] = (sc['randoms'] + 0.5 + (frac[:, 11] - 32) / 256.0) / Hs
    rec['deltac_rank'] = (sc['deltac'] + 0.25 + frac[:, 12] / 1024.0) / Hs - 0.5
    rec['fenv_rank'] = (sc['fenv'] + 0.50 + frac[:, 13] / 1024.0) / Hs - 0.5
    rec['shear_rank'] = (sc['shear'] + 0.75 + frac[:, 14] / 1024.0) / Hs - 0.5
    if veldev_1d:
        rec['randoms_gaus_vrms'] = _band(_SLOT['gz'], sc['gaus'], frac[:, 17])
        rec['randoms_exp'] = -_band(_SLOT['ez'], sc['exp'], frac[:, 20])
    else:
        for j, a in enumerate(['gx', 'gy', 'gz']):
            rec['randoms_gaus_vrms'][:, j] = _band(_SLOT[a], sc['gaus'], frac[:, 15 + j])
        for j, a in enumerate(['ex', 'ey', 'ez']):
            rec['randoms_exp'][:, j] = -_band(_SLOT[a], sc['exp'], frac[:, 18 + j])

    halo_tables = [rec[np.array(a, dtype=np.int64)] if len(a) else rec[:0] for a in assign]

    # ---- particles ----
    opt = [r for r in ('ranksp', 'ranksr', 'ranksc') if r in desc.get('rank_fields', ['ranksp', 'ranksr', 'ranksc'])]
    rank_fields = (['ranks', 'ranksv'] + opt) if want_ranks else []
    pdt = part_dtype(rank_fields)
    part_tables = []
    q0 = 0
    for s in range(ns):
        n = npart[s] if (primary and nh[s] > 0) else 0
        pt = np.zeros(n, dtype=pdt)
        if n:
            host = rng.integers(0, nh[s], size=n)  # row of the host within the slab's halo table
            if desc.get('grouped', True):
                host = np.sort(host)
            ht = halo_tables[s]
            q = q0 + np.arange(n)
            pf = rng.integers(0, 64, size=(n, 12))
            for j in range(3):
                pt['pos'][:, j] = _band(20 + j, q, pf[:, j])
                pt['vel'][:, j] = -_band(23 + j, q, pf[:, 3 + j])
            for j, r in enumerate(rank_fields):
                pt[r] = (_band(26 + j, q, pf[:, 6 + j]) - 26 * 4096.0) / 4096.0 - 1.0
            counts = np.bincount(host, minlength=nh[s])
            pt['Np'] = counts[host]
            pt['downsample_halo'] = 1.0 / ht['multi_halos'][host]
            pt['halo_vel'] = ht['v_L2com'][host]
            pt['halo_mass'] = ht['N'][host] * Mpart
            pt['halo_id'] = ht['id'][host].astype(np.int64)
            pt['randoms'] = (q + 0.5 + (pf[:, 11] - 32) / 256.0) / 4096.0
            pt['halo_deltac'] = ht['deltac_rank'][host]
            pt['halo_fenv'] = ht['fenv_rank'][host]
            pt['halo_shear'] = ht['shear_rank'][host]
        part_tables.append(pt)
        q0 += n

    # ---- write ----
    import h5py

    def names(s, mt_, ranks_):
        h = 'halos_xcom_%d_%s' % (s, SEED_NAME) + ('_MT' if mt_ else '') + '_new.h5'
        p = 'particles_xcom_%d_%s' % (s, SEED_NAME) + ('_MT' if mt_ else '') + ('_withranks' if ranks_ else '') + '_new.h5'
        return os.path.join(sdir, h), os.path.join(sdir, p)

    for s in range(ns):
        hfn, pfn = names(s, mt, want_ranks)
        with h5py.File(hfn, 'w') as f:
            f.create_dataset('halos', data=halo_tables[s])
        if primary:
            with h5py.File(pfn, 'w') as f:
                f.create_dataset('particles', data=part_tables[s])
        if desc.get('decoys'):
            # files of the *other* naming variants with disjoint ids and different row counts:
            # reading one of them instead of the selected variant cannot go unnoticed
            dh = rec[:1].copy()
            dh['id'] = np.int64(ids[-1]) + 7 + s if H else 7 + s
            dhfn, _ = names(s, not mt, want_ranks)
            with h5py.File(dhfn, 'w') as f:
                f.create_dataset('halos', data=dh)
            if primary:
                for mt_, rk_ in ((mt, not want_ranks), (not mt, want_ranks), (not mt, not want_ranks)):
                    _, dpfn = names(s, mt_, rk_)
                    dp = np.zeros(1, dtype=part_dtype(['ranks', 'ranksv'] if rk_ else []))
                    dp['halo_id'] = dh['id'][0]
                    dp['Np'] = 1.0
                    dp['downsample_halo'] = 1.0
                    with h5py.File(dpfn, 'w') as f:
                        f.create_dataset('particles', data=dp)

    fx = Fixture()
    fx.root = root
    fx.nslabs = ns
    fx.primary = primary
    fx.Mpart = Mpart
    fx.header = header
    fx.ids_sorted = ids
    fx.assign = assign
    fx.halo_tables = halo_tables
    fx.part_tables = part_tables
    fx.rank_fields = rank_fields
    fx.sim_params = {
        'sim_name': sim,
        'sim_dir': sim_dir,
        'output_dir': out_dir,
        'subsample_dir': sub_dir,
        'z_mock': z,
    }
    if halo_lc:
        fx.sim_params['halo_lc'] = True
    if desc.get('force_mt'):
        fx.sim_params['force_mt'] = True
    tr = {kk: bool(v) for kk, v in desc['tracers'].items()}
    fx.HOD_params = {'tracer_flags': tr, 'want_rsd': bool(desc.get('want_rsd', True)), 'Ndim': 64, 'density_sigma': 3, 'write_to_disk': False}
    for kk in tr:
        fx.HOD_params[kk + '_params'] = {'logM_cut': 13.3, 'logM1': 14.3, 'sigma': 0.3, 'alpha': 1.0, 'kappa': 0.4}
    # the four staging flags default to False when absent: pass them explicitly or omit a False one
    for flag in ('want_ranks', 'want_AB', 'want_shear', 'want_expvel'):
        if desc[flag] or not desc.get('omit_false_flags'):
            fx.HOD_params[flag] = bool(desc[flag])
    if desc.get('clustering'):
        fx.clustering_params = {'clustering_type': 'xirppi', 'bin_params': {'logmin': -0.77, 'logmax': 1.48, 'nbins': 8}, 'pimax': 30, 'pi_bin_size': 5}
    else:
        fx.clustering_params = None
    return fx
