"""C04 — RVint and PID (aux) bit fields decode exactly per the documented layout.

Generator
  exhaustive (bulk descriptors, each checked vectorised):
    quick    all 2^20 position fields x 8 velocity patterns; all 2^12 velocity fields x 8 position
             patterns; every value of each aux field (3 x 15-bit index, tagged, 10-bit density)
             x 32 fillings of all other bits (all-zero, all-one, 30 pseudo-random).
    thorough the same plus ALL 2^32 RVint words, each in every one of the three columns, for float32
             and for float64 (2 x 1024 chunks of 2^22 consecutive words, decoded 2^18 words per call).
  Hypothesis:
    rvint     small word lists (boundary-biased) x BoxSize over decades (int / float / np.float32 /
              np.float64) x float32/float64 x input shape (N,3) or flat x posout/velout in
              {None, False, supplied (N,3), supplied flat (3N,)} (supplied arrays sit inside a
              sentinel-filled buffer)
    rvint-rt  encoder round trip of positions in [-L/2, L/2] and velocities in [-6000, 5997] km/s
    aux       64-bit words (boundary-biased) x box x ppd 1..32767 (int or float-valued) x dtype x every
              subset of the unpack_pids flags x {unpack_pids, kernel with arrays from
              empty_bitpacked_arrays (as the catalog reader passes them)}
Oracle
  vt.oracles.decoders: exact integer fields by unsigned division/modulo, physical values from an
  integer numerator in long double, rounded once.  Tolerances (absolute):
    pos       2*eps(dtype)*|pos|         (implementation may round box/1e6, product and store)
    vel       2*eps(dtype)*|vel|         (all values are exactly representable)
    lagr_pos  2*eps(dtype)*(|idx*box/ppd| + box/2)   (cancellation)
    pid, lagr_idx, tagged, density       exact
    round trip: half a quantum (+ the rounding terms above + 16 eps64 of the input, for the encoder's own arithmetic)
  Every output-selection mode is judged against the same reference, so "the same whichever outputs
  are requested" follows; un-requested / out-of-range parts of supplied buffers must stay untouched;
  the returned key set of unpack_pids must be exactly the requested one.
"""
import numpy as np
from hypothesis import strategies as st

from vt.core import Reject, Violation, call_repo
from vt.oracles import decoders as D

ID = 'C04'
RULE = (
    'bulk descriptors enumerate bit sub-spaces completely (each bulk case = up to 3*2^22 word decodes); Hypothesis descriptors '
    '(words, box, ppd, dtype, input shape, output modes / flag subsets, api). non-trivial = bulk case, or a word with a negative '
    'position field, or density code 1023, or a pid word with foreign (non-id) bits set, or any non-default output mode / flag '
    'subset, or a round-trip case; distinct = descriptor hash.'
)
ASSUMPTIONS = [
    'numpy integer division/modulo and x87 long double (64-bit mantissa) are trusted for the reference (vt/oracles/decoders.py)',
    'float tolerances: pos/vel 2*eps(dtype) relative; lagr_pos 2*eps(dtype)*(|idx*box/ppd|+box/2); integer outputs exact',
    'box is taken as the float64 value of whatever scalar is passed (int, float, np.float32, np.float64)',
    'velocities for the round trip are restricted to the representable range [-6000, 2047*6000/2048]; the encoder clamps',
]
EXHAUSTIVE_NOTE = {
    'quick': 'all 2^20 rvint position fields x 8 velocity patterns; all 2^12 velocity fields x 8 position patterns; every value of every aux field (3x32768 + 2 + 1024) x 32 fillings of the other 49..63 bits',
    'thorough': 'ALL 2^32 rvint words in each of the 3 columns for float32 and float64 (3*2^33 word decodes), plus the quick sub-spaces',
}

FLAGS = ['pid', 'lagr_pos', 'tagged', 'density', 'lagr_idx']
V12_PATTERNS = [0x000, 0xFFF, 0x800, 0x7FF, 0x555, 0xAAA, 0x001, 0x801]
P20_PATTERNS = [0x00000, 0xFFFFF, 0x80000, 0x7FFFF, 0x55555, 0xAAAAA, 0x00001, 0x80001]
BOXES = [2000.0, 1.0, 500.0, 7373.37, 1e-3, 296.0, 1e5, 1100.0]
RANGE_CHUNK = 1 << 22
SENT = -7.25e30
M = 4  # sentinel margin rows

_counts = {'rvint_words_decoded': 0, 'aux_words_decoded': 0}
_tables = {}


def extra_evidence():
    return dict(_counts)


def config(tier):
    if tier == 'quick':
        return dict(shards=8, examples=700, numba_threads=1, boundscheck=[False, True], shrink_calls=150)
    return dict(shards=16, examples=3000, numba_threads=1, boundscheck=[False, False, False, True], shrink_calls=400)


# --------------------------------------------------------------------------- exhaustive


def _bulk_list(tier):
    out = []
    k = 0
    for v in V12_PATTERNS:
        out.append({'mode': 'rvint-posfields', 'v12': v, 'box': BOXES[k % len(BOXES)], 'dtype': 'float32' if k % 2 == 0 else 'float64'})
        k += 1
    for p in P20_PATTERNS:
        out.append({'mode': 'rvint-velfields', 'p20': p, 'box': BOXES[k % len(BOXES)], 'dtype': 'float32' if k % 2 == 0 else 'float64'})
        k += 1
    for field in ['ix', 'iy', 'iz', 'tagged', 'density']:
        for b in range(8):
            out.append({'mode': 'aux-field', 'field': field, 'fill0': 4 * b, 'nfill': 4, 'box': BOXES[k % len(BOXES)], 'ppd': [1728, 1, 32767, 6912, 7, 1152, 2304, 100][b], 'dtype': 'float32' if k % 2 == 0 else 'float64'})
            k += 1
    if tier == 'thorough':
        n = (1 << 32) // RANGE_CHUNK
        for dt in ('float32', 'float64'):
            for c in range(n):
                out.append({'mode': 'rvint-range', 'start': c * RANGE_CHUNK, 'count': RANGE_CHUNK, 'box': BOXES[c % len(BOXES)], 'dtype': dt})
    return out


def exhaustive(tier, shard, nshards):
    for i, d in enumerate(_bulk_list(tier)):
        if i % nshards == shard:
            yield d


# --------------------------------------------------------------------------- strategies

_W32_SPECIAL = [0, -1, 0x7FFFFFFF, -(2**31), 0x800, 0xFFF, 0x1000, -4096, 0x7FFFF000, -(2**31) + 0xFFF, 0x7FF, 0x801, 0x00000FFF, -2048, 2048, 0x40000000, -(2**30)]
_W64_SPECIAL = [
    0,
    2**64 - 1,
    0x7FFF,
    0x7FFF0000,
    0x7FFF00000000,
    0x7FFF7FFF7FFF,
    1 << 48,
    0x07FE000000000000,
    1 << 49,
    1 << 58,
    1 << 59,
    1 << 15,
    1 << 31,
    1 << 47,
    1 << 63,
    0xF801800080008000,
    (2**64 - 1) ^ 0x7FFF7FFF7FFF,
    (2**64 - 1) ^ (1 << 48),
    (2**64 - 1) ^ 0x07FE000000000000,
]

_box = st.one_of(
    st.sampled_from(BOXES),
    st.floats(1e-3, 1e5, allow_nan=False, allow_infinity=False),
    st.integers(1, 10000).map(float),
)
_boxkind = st.sampled_from(['float', 'float', 'float', 'float', 'int', 'int', 'f32', 'f64'])
_dtype = st.sampled_from(['float32', 'float64'])
_outmode = st.sampled_from(['none', 'none', 'false', 'arr', 'flat', 'strided'])
_w32 = st.one_of(st.sampled_from(_W32_SPECIAL), st.integers(-(2**31), 2**31 - 1), st.integers(-(2**31), -1))
_w64 = st.one_of(st.sampled_from(_W64_SPECIAL), st.integers(0, 2**64 - 1), st.builds(lambda a, b: a | b, st.integers(0, 2**64 - 1), st.sampled_from([0x07FE000000000000, 0x7FFF7FFF7FFF, 1 << 48])))


@st.composite
def _rvint_desc(draw):
    n = draw(st.one_of(st.sampled_from([0, 1, 1, 2]), st.integers(0, 12)))
    words = draw(st.lists(_w32, min_size=3 * n, max_size=3 * n))
    return {
        'mode': 'rvint',
        'words': words,
        'flat': draw(st.booleans()),
        'box': draw(_box),
        'boxkind': draw(_boxkind),
        'dtype': draw(_dtype),
        'pos': draw(_outmode),
        'vel': draw(_outmode),
    }


_frac = st.one_of(
    st.sampled_from([-0.5, 0.0, 0.5, 0.4999995, -0.4999995, 0.25, 1e-6, -1e-6, 5e-7, -5e-7, 1.5e-6, 0.4999999999]),
    st.floats(-0.5, 0.5, allow_nan=False),
    st.builds(lambda k, e: (k + 0.5 + e) / 1e6, st.integers(-500000, 499999), st.sampled_from([0.0, 1e-7, -1e-7])),
)
_vq = 6000.0 / 2048
_velv = st.one_of(
    st.sampled_from([-6000.0, 0.0, 2047 * _vq, -_vq / 2, _vq / 2, 5997.0, -5999.9, 1e-3]),
    st.floats(-6000.0, 2047 * _vq, allow_nan=False),
    st.builds(lambda k, e: (k + 0.5 + e) * _vq, st.integers(-2048, 2046), st.sampled_from([0.0, 1e-6, -1e-6])),
)


@st.composite
def _rt_desc(draw):
    n = draw(st.integers(1, 8))
    return {
        'mode': 'rvint-rt',
        'frac': draw(st.lists(_frac, min_size=3 * n, max_size=3 * n)),
        'vel': draw(st.lists(_velv, min_size=3 * n, max_size=3 * n)),
        'box': draw(_box),
        'dtype': draw(_dtype),
    }


@st.composite
def _aux_desc(draw):
    n = draw(st.one_of(st.sampled_from([0, 1, 1, 2]), st.integers(0, 12)))
    api = draw(st.sampled_from(['unpack_pids', 'unpack_pids', 'prealloc']))
    flags = draw(st.one_of(st.sampled_from([[], list(FLAGS), ['pid'], ['lagr_pos']]), st.lists(st.sampled_from(FLAGS), unique=True).map(sorted)))
    d = {
        'mode': 'aux',
        'words': draw(st.lists(_w64, min_size=n, max_size=n)),
        'box': draw(_box),
        'boxkind': draw(_boxkind),
        'ppd': draw(st.one_of(st.sampled_from([1, 2, 1728, 6912, 32767, 32768 // 2]), st.integers(1, 32767))),
        # near-integer floats (NP**(1/3) comes out a few ulp low or high) are documented-accepted: unpack_pids rounds them
        'ppdkind': draw(st.sampled_from(['int', 'int', 'float', 'below', 'above', 'cbrt', 'npint32', 'npfloat32', 'npfloat64'])),
        'dtype': draw(_dtype),
        'flags': flags,
        'api': api,
    }
    if api == 'prealloc':
        d['bits'] = draw(st.sampled_from(['list', 'list', 'list', 'true', 'false', 'str', 'list+packedpid']))
    else:
        # box/ppd may be omitted when lagr_pos is not requested (documented: "needed only for lagr_pos")
        d['omit'] = draw(st.sampled_from(['', '', 'box', 'ppd', 'both'])) if 'lagr_pos' not in flags else ''
        d['explicit'] = draw(st.booleans())
    return d


def strategy(tier):
    return st.one_of(_rvint_desc(), _rvint_desc(), _aux_desc(), _aux_desc(), _rt_desc())


def _ppdval(ppd, kind, api):
    """The ppd argument as the caller spells it. The near-integer spellings go to unpack_pids only (it is the layer that rounds);
    the bare kernel gets the integer value in some numeric type."""
    if kind == 'int':
        return ppd
    if kind == 'float':
        return float(ppd)
    if api != 'unpack_pids':
        return ppd  # the bare kernel is only ever called with the rounded Python int
    if kind == 'npint32':
        return np.int32(ppd)
    if kind == 'npfloat32':
        return np.float32(ppd)
    if kind == 'npfloat64':
        return np.float64(ppd)
    if kind == 'below':
        return float(np.nextafter(np.nextafter(float(ppd), 0.0), 0.0))
    if kind == 'above':
        return float(np.nextafter(np.nextafter(float(ppd), np.inf), np.inf))
    if kind == 'cbrt':
        return float(ppd**3) ** (1.0 / 3.0)
    raise Reject('unknown ppdkind')


# --------------------------------------------------------------------------- bookkeeping


def _neg_word(w):
    return (int(w) % (1 << 32)) >= (1 << 31)


def nontrivial(d):
    m = d['mode']
    if m in ('rvint-posfields', 'rvint-velfields', 'rvint-range', 'aux-field', 'rvint-rt'):
        return True
    if m == 'rvint':
        return d['pos'] != 'none' or d['vel'] != 'none' or any(_neg_word(w) for w in d['words'])
    if m == 'aux':
        foreign = (2**64 - 1) ^ 0x7FFF7FFF7FFF
        return sorted(d['flags']) != sorted(FLAGS) or d['api'] != 'unpack_pids' or any(((w >> 49) & 1023) == 1023 or (w & foreign) for w in d['words'])
    return False


def classes(d):
    m = d['mode']
    c = ['mode=' + m, 'dtype=' + d['dtype']]
    if m == 'rvint':
        c.append('out=%s/%s' % (d['pos'], d['vel']))
        c.append('n=0' if not d['words'] else 'n>=1')
        c.append('box=' + d['boxkind'])
        if d['flat']:
            c.append('flat-input')
        if any(_neg_word(w) for w in d['words']):
            c.append('negative-pos-field')
    elif m == 'aux':
        c.append('api=' + d['api'])
        c.append('nflags=%d' % len(d['flags']))
        c.append('ppd=' + d.get('ppdkind', 'int'))
        c.append('n=0' if not d['words'] else 'n>=1')
        if any(((w >> 49) & 1023) == 1023 for w in d['words']):
            c.append('density-saturated')
        if any(w & ((2**64 - 1) ^ 0x7FFF7FFF7FFF) for w in d['words']):
            c.append('pid-foreign-bits')
        if d.get('omit'):
            c.append('omit=' + d['omit'])
        if d.get('bits'):
            c.append('bits=' + d['bits'])
    elif m == 'aux-field':
        c.append('field=' + d['field'])
    return c


def _dt(name):
    return {'float32': np.float32, 'float64': np.float64}[name]


def _boxval(box, kind):
    box = float(box)
    if kind == 'int':
        return int(round(box)) if box >= 1 else 1
    if kind == 'f32':
        return np.float32(box)
    if kind == 'f64':
        return np.float64(box)
    return box


def _cmp(got, exp, tol, sig, what):
    """|got-exp| <= tol elementwise (float64 arithmetic); raise Violation(sig) at the first offender."""
    g = np.asarray(got, dtype=np.float64)
    e = np.asarray(exp, dtype=np.float64)
    if g.shape != e.shape:
        raise Violation(sig.split('-')[0] + '-shape', '%s: shape %s expected %s' % (what, g.shape, e.shape))
    bad = ~(np.abs(g - e) <= tol)
    if bad.any():
        i = tuple(int(x) for x in np.argwhere(bad)[0])
        t = tol[i] if isinstance(tol, np.ndarray) else tol
        raise Violation(sig, '%s: %d of %d values off; first at %s: got %r expected %r (tol %.3g)' % (what, int(bad.sum()), bad.size, i, float(g[i]), float(e[i]), float(t)))


def _cmp_int(got, exp, sig, what):
    g = np.asarray(got)
    e = np.asarray(exp)
    if g.shape != e.shape:
        raise Violation(sig.split('-')[0] + '-shape', '%s: shape %s expected %s' % (what, g.shape, e.shape))
    bad = g.astype(np.int64) != e.astype(np.int64)
    if bad.any():
        i = tuple(int(x) for x in np.argwhere(bad)[0])
        raise Violation(sig, '%s: %d of %d values differ; first at %s: got %d expected %d' % (what, int(bad.sum()), bad.size, i, int(g[i]), int(e[i])))


# --------------------------------------------------------------------------- rvint bulk


def _rv_tables(box, dtype):
    """Reference tables indexed by the *unsigned* 20-bit / 12-bit field values."""
    key = (float(box), np.dtype(dtype).name)
    t = _tables.get(key)
    if t is None:
        if len(_tables) > 6:
            _tables.clear()
        hi = (np.arange(1 << 20, dtype=np.int64) * 4096).astype(np.uint32).view(np.int32)
        lo = np.arange(4096, dtype=np.int64).astype(np.int32)
        pos, _ = D.ref_rvint_decode(hi, box, dtype)
        ptol, _ = D.rvint_tol(hi, box, dtype)
        _, vel = D.ref_rvint_decode(lo, box, dtype)
        _, vtol = D.rvint_tol(lo, box, dtype)
        t = (pos.astype(np.float64), ptol, vel.astype(np.float64), vtol)
        _tables[key] = t
    return t


BLOCK = 1 << 18  # words per call: keeps every temporary below glibc's mmap threshold and inside the cache


def _check_rvint_bulk(u, box, dtype, what):
    """u: int64 array of 32-bit patterns (unsigned). Each word is presented in all three columns."""
    for s in range(0, len(u), BLOCK):
        _check_rvint_block(u[s : s + BLOCK], box, dtype, what)


def _check_rvint_block(u, box, dtype, what):
    from abacusnbody.data import bitpacked

    n = len(u)
    uu = np.empty((n, 3), dtype=np.int64)
    uu[:, 0] = u
    uu[:, 1] = np.roll(u, 1237 % max(n, 1))
    uu[:, 2] = u[::-1]
    arr = uu.astype(np.uint32).view(np.int32)
    keep = arr.copy()
    pos, vel = call_repo(bitpacked.unpack_rvint, arr, box, float_dtype=dtype)
    if not np.array_equal(arr, keep):
        raise Violation('input-modified', 'unpack_rvint changed its input')
    for name, a in (('pos', pos), ('vel', vel)):
        if not isinstance(a, np.ndarray) or a.shape != (n, 3) or a.dtype != np.dtype(dtype):
            raise Violation('rvint-shape', '%s: %s is %r' % (what, name, getattr(a, 'shape', a)))
    pt, ptol, vt, vtol = _rv_tables(box, dtype)
    # uu holds non-negative numbers < 2^32, so these are plain unsigned field extractions
    hi = uu >> 12
    lo = uu & 4095
    _cmp(pos, pt[hi], ptol[hi], 'rvint-pos-wrong', what + ' pos')
    _cmp(vel, vt[lo], vtol[lo], 'rvint-vel-wrong', what + ' vel')
    _counts['rvint_words_decoded'] += 3 * n


# --------------------------------------------------------------------------- rvint random


def _run_rvint(d):
    from abacusnbody.data import bitpacked

    dtype = _dt(d['dtype'])
    words = [int(w) for w in d['words']]
    if len(words) % 3:
        raise Reject('len(words) % 3')
    n = len(words) // 3
    arr = np.array(words, dtype=np.int64).astype(np.uint32).view(np.int32).reshape(n, 3)
    inp = arr.reshape(-1).copy() if d['flat'] else arr.copy()
    keep = inp.copy()
    box = _boxval(d['box'], d['boxkind'])

    bufs = {}
    kw = {}
    for name in ('pos', 'vel'):
        mode = d[name]
        if mode == 'none':
            continue
        if mode == 'false':
            kw[name + 'out'] = False
            continue
        if mode == 'arr':
            buf = np.full((n + 2 * M, 3), SENT, dtype=dtype)
            view = buf[M : M + n]
        elif mode == 'strided':
            # a non-contiguous (n,3) view: one half of an (n,6) phase-space block
            buf = np.full((n + 2 * M, 6), SENT, dtype=dtype)
            view = buf[M : M + n, :3] if name == 'pos' else buf[M : M + n, 3:]
        else:
            buf = np.full(3 * (n + 2 * M), SENT, dtype=dtype)
            view = buf[3 * M : 3 * (M + n)]
        bufs[name] = (buf, view, mode)
        kw[name + 'out'] = view

    ret = call_repo(bitpacked.unpack_rvint, inp, box, float_dtype=dtype, **kw)
    if not np.array_equal(inp, keep):
        raise Violation('input-modified', 'unpack_rvint changed its input')
    if not (isinstance(ret, tuple) and len(ret) == 2):
        raise Violation('rvint-return', 'return value is %r' % (type(ret),))

    rpos, rvel = D.ref_rvint_decode(arr, float(box), dtype)
    ptol, vtol = D.rvint_tol(arr, float(box), dtype)
    for k, (name, ref, tol) in enumerate((('pos', rpos, ptol), ('vel', rvel, vtol))):
        mode = d[name]
        what = 'n=%d %s box=%r(%s) pos=%s vel=%s %s' % (n, d['dtype'], d['box'], d['boxkind'], d['pos'], d['vel'], name)
        if mode == 'none':
            a = ret[k]
            if not isinstance(a, np.ndarray) or a.shape != (n, 3) or a.dtype != np.dtype(dtype):
                raise Violation('rvint-shape', '%s: allocated output is %r %r' % (what, getattr(a, 'shape', a), getattr(a, 'dtype', None)))
            _cmp(a, ref, tol, 'rvint-%s-wrong' % name, what)
        elif mode == 'false':
            if isinstance(ret[k], np.ndarray) and ret[k].size:
                raise Violation('rvint-return', '%s: not requested but an array was returned' % what)
            if not isinstance(ret[k], np.ndarray) and int(ret[k]) != 0:
                raise Violation('rvint-return', '%s: not requested, but %r particles are reported as unpacked into it (callers size their tables with this count)' % (what, ret[k]))
        else:
            buf, view, _ = bufs[name]
            if isinstance(ret[k], np.ndarray) or int(ret[k]) != n:
                raise Violation('rvint-return', '%s: supplied output, returned %r expected the particle count %d' % (what, ret[k], n))
            if mode == 'strided':
                other = buf[M : M + n, 3:] if name == 'pos' else buf[M : M + n, :3]
                if not (np.all(buf[:M] == SENT) and np.all(buf[M + n :] == SENT) and np.all(other == SENT)):
                    raise Violation('rvint-canary', '%s: wrote outside the supplied (strided) output' % what)
            else:
                flat = buf.reshape(-1)
                if not (np.all(flat[: 3 * M] == SENT) and np.all(flat[3 * (M + n) :] == SENT)):
                    raise Violation('rvint-canary', '%s: wrote outside the supplied output' % what)
            _cmp(np.asarray(view).reshape(n, 3), ref, tol, 'rvint-%s-wrong' % name, what)
    _counts['rvint_words_decoded'] += 3 * n


def _run_rt(d):
    from abacusnbody.data import bitpacked

    dtype = _dt(d['dtype'])
    box = float(d['box'])
    frac = np.array(d['frac'], dtype=np.float64).reshape(-1, 3)
    v = np.array(d['vel'], dtype=np.float64).reshape(-1, 3)
    if frac.shape != v.shape:
        raise Reject('shape')
    if np.any(np.abs(frac) > 0.5) or np.any(v < -6000.0) or np.any(v > 2047 * _vq):
        raise Reject('outside the representable range')
    x = frac * box
    words = D.rvint_encode(x, v, box)
    pos, vel = call_repo(bitpacked.unpack_rvint, words, box, float_dtype=dtype)
    pq, vq = D.rvint_quanta(box)
    ptol, vtol = D.rvint_tol(words, box, dtype)
    e64 = 16 * D.feps(np.float64)
    _cmp(pos, x, 0.5 * pq + ptol + e64 * np.abs(x) + e64 * pq, 'rvint-roundtrip-pos', 'round trip %s box=%r' % (d['dtype'], box))
    _cmp(vel, v, 0.5 * vq + vtol + e64 * np.abs(v) + e64 * vq, 'rvint-roundtrip-vel', 'round trip %s box=%r' % (d['dtype'], box))
    _counts['rvint_words_decoded'] += words.size


# --------------------------------------------------------------------------- aux


def _check_aux_outputs(got, words, box, ppd, dtype, what):
    """got: dict name -> array for the requested fields only."""
    f = D.aux_fields(words)
    ref = D.ref_aux_decode(words, box, ppd, dtype)
    n = len(words)
    for name, a in got.items():
        w = '%s %s' % (what, name)
        if name in ('lagr_pos', 'lagr_idx'):
            shape = (n, 3)
        else:
            shape = (n,)
        if not isinstance(a, np.ndarray) or a.shape != shape:
            raise Violation('aux-shape', '%s: shape %r expected %r' % (w, getattr(a, 'shape', None), shape))
        if name == 'pid':
            if a.dtype != np.int64:
                raise Violation('aux-dtype', '%s: dtype %s expected int64' % (w, a.dtype))
            _cmp_int(a, ref['pid'], 'aux-pid-wrong', w)
        elif name == 'lagr_idx':
            if a.dtype != np.int16:
                raise Violation('aux-dtype', '%s: dtype %s expected int16' % (w, a.dtype))
            _cmp_int(a, ref['lagr_idx'], 'aux-lagr_idx-wrong', w)
        elif name == 'tagged':
            if a.dtype.kind not in 'bu':
                raise Violation('aux-dtype', '%s: dtype %s expected bool/uint8' % (w, a.dtype))
            _cmp_int(a, ref['tagged'], 'aux-tagged-wrong', w)
        elif name == 'density':
            if a.dtype != np.dtype(dtype):
                raise Violation('aux-dtype', '%s: dtype %s expected %s' % (w, a.dtype, np.dtype(dtype)))
            _cmp(a, ref['density'], 0.0, 'aux-density-wrong', w)
        elif name == 'lagr_pos':
            if a.dtype != np.dtype(dtype):
                raise Violation('aux-dtype', '%s: dtype %s expected %s' % (w, a.dtype, np.dtype(dtype)))
            tol = D.lagr_pos_tol(f['lagr_idx'], box, ppd, dtype)
            _cmp(a, ref['lagr_pos'], tol, 'aux-lagr_pos-wrong', w)
        else:
            raise Violation('aux-keys', '%s: unexpected output' % w)


def _fill_words(seed, n):
    if seed == 0:
        return np.zeros(n, dtype=np.uint64)
    if seed == 1:
        return np.full(n, np.uint64(2**64 - 1))
    return np.random.Generator(np.random.PCG64(0xC04 + seed)).integers(0, 2**64, size=n, dtype=np.uint64)


def _run_aux_field(d):
    from abacusnbody.data import bitpacked

    lo, width = D.AUX_LAYOUT[d['field']]
    dtype = _dt(d['dtype'])
    nv = 1 << width
    vals = np.arange(nv, dtype=np.uint64)
    mask = np.uint64(((1 << width) - 1) << lo)
    blocks = []
    for s in range(d['fill0'], d['fill0'] + d['nfill']):
        fill = _fill_words(s, nv)
        blocks.append((fill & ~mask) | (vals * np.uint64(1 << lo)))
    words = np.concatenate(blocks)
    keep = words.copy()
    box, ppd = float(d['box']), int(d['ppd'])
    got = call_repo(bitpacked.unpack_pids, words, box=box, ppd=ppd, float_dtype=dtype, **{k: True for k in FLAGS})
    if not np.array_equal(words, keep):
        raise Violation('input-modified', 'unpack_pids changed its input')
    if sorted(got) != sorted(FLAGS):
        raise Violation('aux-keys', 'requested all five fields, got %s' % sorted(got))
    what = 'aux field %s fills %d..%d box=%r ppd=%d %s' % (d['field'], d['fill0'], d['fill0'] + d['nfill'] - 1, box, ppd, d['dtype'])
    # direct statement of the field under sweep: value v regardless of the filling
    v = np.tile(np.arange(nv, dtype=np.int64), d['nfill'])
    if d['field'] in ('ix', 'iy', 'iz'):
        _cmp_int(got['lagr_idx'][:, 'xyz'.index(d['field'][1])], v, 'aux-lagr_idx-wrong', what + ' (swept field)')
    elif d['field'] == 'tagged':
        _cmp_int(got['tagged'], v, 'aux-tagged-wrong', what + ' (swept field)')
    else:
        _cmp(got['density'], (v * v).astype(np.float64), 0.0, 'aux-density-wrong', what + ' (swept field)')
    _check_aux_outputs(got, words, box, ppd, dtype, what)
    _counts['aux_words_decoded'] += len(words)


def _run_aux(d):
    from abacusnbody.data import bitpacked

    dtype = _dt(d['dtype'])
    words = np.array([int(w) for w in d['words']], dtype=np.uint64)
    n = len(words)
    keep = words.copy()
    flags = list(d['flags'])
    if any(f not in FLAGS for f in flags):
        raise Reject('unknown flag')
    box = _boxval(d['box'], d['boxkind'])
    ppd = int(d['ppd'])
    ppd_arg = _ppdval(ppd, d['ppdkind'], d['api'])
    what = 'n=%d api=%s flags=%s box=%r(%s) ppd=%r %s' % (n, d['api'], flags, d['box'], d['boxkind'], ppd_arg, d['dtype'])

    if d['api'] == 'unpack_pids':
        kw = {'box': box, 'ppd': ppd_arg}
        omit = d.get('omit', '')
        if omit and 'lagr_pos' in flags:
            raise Reject('lagr_pos needs box and ppd')
        if omit in ('box', 'both'):
            kw.pop('box')
        if omit in ('ppd', 'both'):
            kw.pop('ppd')
        fl = {f: True for f in flags}
        if d.get('explicit'):  # pass the un-requested flags explicitly as False, as read_asdf does
            fl.update({f: False for f in FLAGS if f not in flags})
        got = call_repo(bitpacked.unpack_pids, words, float_dtype=dtype, **fl, **kw)
        if not isinstance(got, dict):
            raise Violation('aux-keys', '%s: returned %r' % (what, type(got)))
        if sorted(got) != sorted(flags):
            raise Violation('aux-keys', '%s: returned fields %s' % (what, sorted(got)))
        _check_aux_outputs(got, words, float(box), ppd, dtype, what)
    else:
        bits = d.get('bits', 'list')
        if bits == 'true':
            ub = True
            want = list(FLAGS) + ['packedpid']
        elif bits == 'false':
            ub = False
            want = ['pid']
        elif bits == 'str':
            if len(flags) != 1:
                ub = list(flags)
            else:
                ub = flags[0]
            want = list(flags)
        elif bits == 'list+packedpid':
            ub = list(flags) + ['packedpid']
            want = list(flags) + ['packedpid']
        else:
            ub = list(flags)
            want = list(flags)
        arrs = call_repo(bitpacked.empty_bitpacked_arrays, n + 2 * M, ub, float_dtype=dtype)
        if not isinstance(arrs, dict) or sorted(arrs) != sorted(want):
            raise Violation('aux-keys', '%s: empty_bitpacked_arrays(%r) gave %s expected %s' % (what, ub, sorted(arrs) if isinstance(arrs, dict) else arrs, sorted(want)))
        exp_dt = {'pid': np.int64, 'lagr_pos': dtype, 'lagr_idx': np.int16, 'tagged': np.uint8, 'density': dtype, 'packedpid': np.uint64}
        views = {}
        for k, a in arrs.items():
            shape = (n + 2 * M, 3) if k in ('lagr_pos', 'lagr_idx') else (n + 2 * M,)
            if a.shape != shape or a.dtype != np.dtype(exp_dt[k]):
                raise Violation('aux-dtype', '%s: empty_bitpacked_arrays %s is %s%s' % (what, k, a.dtype, a.shape))
            a[...] = 77  # sentinel representable in every dtype
            if k != 'packedpid':
                views[k] = a[M : M + n]
        call_repo(bitpacked._unpack_pids, words, box, ppd_arg, float_dtype=dtype, **views)
        for k, a in arrs.items():
            if not (np.all(a[:M] == 77) and np.all(a[M + n :] == 77)):
                raise Violation('aux-canary', '%s: %s written outside the slice handed to the kernel' % (what, k))
        _check_aux_outputs(views, words, float(box), ppd, dtype, what)
    if not np.array_equal(words, keep):
        raise Violation('input-modified', 'aux decode changed its input')
    _counts['aux_words_decoded'] += n


# --------------------------------------------------------------------------- entry


def run_case(d):
    m = d['mode']
    if m == 'rvint-posfields':
        u = np.arange(1 << 20, dtype=np.int64) * 4096 + int(d['v12'])
        _check_rvint_bulk(u, float(d['box']), _dt(d['dtype']), 'all position fields, v12=0x%03x box=%r %s' % (d['v12'], d['box'], d['dtype']))
    elif m == 'rvint-velfields':
        u = int(d['p20']) * 4096 + np.arange(4096, dtype=np.int64)
        _check_rvint_bulk(u, float(d['box']), _dt(d['dtype']), 'all velocity fields, p20=0x%05x box=%r %s' % (d['p20'], d['box'], d['dtype']))
    elif m == 'rvint-range':
        s, c = int(d['start']), int(d['count'])
        if s < 0 or c < 1 or s + c > (1 << 32):
            raise Reject('range')
        u = np.arange(s, s + c, dtype=np.int64)
        _check_rvint_bulk(u, float(d['box']), _dt(d['dtype']), 'words 0x%08x..0x%08x box=%r %s' % (s, s + c - 1, d['box'], d['dtype']))
    elif m == 'rvint':
        _run_rvint(d)
    elif m == 'rvint-rt':
        _run_rt(d)
    elif m == 'aux-field':
        _run_aux_field(d)
    elif m == 'aux':
        _run_aux(d)
    else:
        raise Reject('unknown mode')
    return None
