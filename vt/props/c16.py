"""C16 — read_asdf returns exactly the requested particle columns.

Generator: one particle file per case — raw column type rvint (int32[N,3]), pack9
(uint8/int8 [N,9], built from a grammar of cell headers and particle records incl.
consecutive headers, a trailing header, particles before the first header, no particles),
packedpid / pid (uint64[N]; every bit random) — with N = 0..50 records, a snapshot or a
light-cone header (OutputType / SimSet / ParticleSubsample{A,B}, plus unrelated scalar, list
and nested entries), unrelated extra columns, array compression {none, zlib, blsc};
*ambiguous* files (two of the known raw columns) and files with *none* of them
(cleaned_rvpid-style names).  Per file 1..5 requests: load in {None, any non-empty subset
of the loadable columns for the type, in any order} x dtype {float32, float64} x deprecated
load_pos / load_vel in {None, True, False}^2 x colname {auto, explicit} x verbose.
Exhaustive sub-space: every non-empty load subset for every file type and float type.

Oracle: (i) the column *set* equals the request, or the documented default (pos+vel for
rvint/pack9, pid for pid files); (ii) one row per particle record (pack9: per non-header
record); (iii) values equal the reference decoding (vt.oracles.decoders — written from the
documented layouts, independent of the package) of the file's raw column, in file order,
within the stated float tolerance, integers exactly, float columns in the requested dtype;
(iv) every column is bit-for-bit identical to the same column obtained when *all* loadable
columns are requested (and in every other request of the case); (v) meta contains every
header entry (light-cone AbacusSummit headers gain SubsampleFraction = A+B); (vi) a file
with several or none of the known raw columns raises unless colname is given, and decodes
the named column when it is.
"""
import warnings

import numpy as np
from hypothesis import strategies as st

from vt import env
from vt.core import Reject, Violation, call_repo
from vt.gen import asdf_files
from vt.oracles import decoders as D

ID = 'C16'
RULE = (
    'Hypothesis descriptors (file type x record grammar x header kind x compression x ambiguous/none variants x 1..5 requests); '
    'non-trivial = some request names a strict subset of the loadable columns or lists them in non-canonical order, or uses a deprecated flag, '
    'or the file is pack9 with a header record between/after particles (truncation path), or the file is ambiguous / has none of the known columns; '
    'distinct = descriptor hash.'
)
EXHAUSTIVE_NOTE = {
    'quick': 'every non-empty subset of the loadable columns (pos,vel: 3; pid,lagr_pos,tagged,density,lagr_idx,aux: 63) for each file type '
    '(rvint, pack9/uint8, pack9/int8, packedpid, pid) x float type (float32, float64), snapshot header: 270 requests, each also compared with the all-columns request',
    'thorough': 'as quick, x {snapshot, light-cone} header x {canonical, reversed} column order: 1080 requests',
}
ASSUMPTIONS = [
    'reference decoders vt/oracles/decoders.py (layouts of DESIGN 3.3): pos/vel of rvint within 2*eps(dtype)*|value|; lagr_pos within 2*eps(dtype)*(|idx*box/ppd|+box/2); '
    'pack9 pos within 6*eps(dtype)*(|cell term|+box/2+|offset|), vel within 6*eps(dtype)*|v|; pid/lagr_idx/tagged/aux and density (code^2 < 2^24) exact',
    'pack9 header records inside the documented domain: cpd 1..4047, velocity-scale field 0..4047, cell index 0..cpd-1; particles before the first header only have count/order/bitwise-identity asserted (value undefined)',
    'only columns that are loadable for the file type are requested (pos/vel for rvint and pack9; the PID-derived fields and aux for pid files)',
    'deprecated load_pos/load_vel: only flag True -> column present and flag False -> column absent are asserted (and nothing when `load` is also given and contradicts them)',
    'none-of-the-known-columns files are named explicitly only with names containing "pid" (the reader recognises the format by name); any exception type counts as the error',
    'blosc is the zlib stand-in; blsc fixtures are written through the repository compressor with the asdf-5.4 adaptor (writing only)',
]

RV_COLS = ['pos', 'vel']
PID_COLS = ['pid', 'lagr_pos', 'tagged', 'density', 'lagr_idx', 'aux']
KINDS = ['rvint', 'pack9', 'packedpid', 'pid']
BOXES = [2000.0, 500.0, 1000.0, 1185.0, 7.5, 296.0, 123.456, 1.0]
VELZ = [1.0, 31234.5, 45000.0, 1234.5678, 200000.0, 0.37]
PPDS = [6912.0, 6912, 1728.0, 2304, 576.0, 64, 6300.0000001, 32767.0, 63.99999999999999, 6911.999999999996, 3.9999999999999996]  # incl. NP**(1/3)-style values a hair below the integer
NONE_NAMES = ['packedpid_A', 'packedpid_B', 'pid_A']
OPT_IN_NONE_NAMES = {'rvint_A': 'rvint', 'rvint_B': 'rvint', 'pack9_A': 'pack9'}  # cleaned_rvpid-style names; generated since the read_asdf dispatch fix

_stats = {'requests_checked': 0, 'reads': 0, 'columns_compared_with_reference': 0, 'columns_compared_bitwise': 0, 'error_cases_checked': 0, 'fixture_files_written': 0}


def config(tier):
    if tier == 'quick':
        return dict(shards=16, examples=40, numba_threads=1, boundscheck=False, soft_s=150, shrink_calls=80)
    return dict(shards=16, examples=650, numba_threads=1, boundscheck=False, soft_s=800, shrink_calls=300)


def setup(tier):
    env.register_asdf()


def loadable(kind):
    return RV_COLS if kind in ('rvint', 'pack9') else PID_COLS


# --------------------------------------------------------------------------- strategy


@st.composite
def _p9(draw):
    """pack9 grammar: lead particles (before any header), then segments [cpd, vf, i, j, k, npart]."""
    segs = []
    nseg = draw(st.sampled_from([0, 1, 1, 2, 2, 3, 4, 6]))
    for _ in range(nseg):
        cpd = draw(st.one_of(st.sampled_from([1, 2, 3, 125, 1701, 4047]), st.integers(1, 4047)))
        vf = draw(st.one_of(st.sampled_from([0, 1, 4047]), st.integers(0, 4047)))
        cell = [draw(st.one_of(st.sampled_from([0, cpd - 1]), st.integers(0, cpd - 1))) for _ in range(3)]
        npart = draw(st.sampled_from([0, 0, 1, 1, 2, 3, 5, 9]))
        segs.append([cpd, vf] + cell + [npart])
    lead = draw(st.sampled_from([0, 0, 0, 0, 0, 0, 1, 3]))
    return dict(lead=lead, segs=segs)


@st.composite
def _request(draw, cols, flags_ok, need_explicit):
    load = draw(st.one_of(st.none(), st.lists(st.sampled_from(cols), min_size=1, max_size=len(cols), unique=True), st.permutations(cols)))
    lp = lv = None
    if flags_ok and draw(st.sampled_from([0, 0, 0, 1])):
        lp = draw(st.sampled_from([None, True, False]))
        lv = draw(st.sampled_from([None, True, False]))
        if draw(st.sampled_from([1, 1, 0])):
            load = None
    return dict(
        load=None if load is None else list(load),
        dtype=draw(st.sampled_from(['f4', 'f4', 'f8'])),
        dtype_as=draw(st.sampled_from(['class', 'class', 'class', 'instance'])),  # np.float64 vs np.dtype('float64'), both documented
        lp=lp,
        lv=lv,
        colname='explicit' if need_explicit else draw(st.sampled_from(['auto', 'auto', 'explicit'])),
        verbose=draw(st.sampled_from([False, False, True])),
        load_as=draw(st.sampled_from(['list', 'list', 'tuple'])),
        dup=draw(st.sampled_from([None] * 6 + [0, 1])),  # occasionally a name is listed twice: the request is a set of columns
    )


@st.composite
def _desc(draw):
    kind = draw(st.sampled_from(KINDS))
    variant = draw(st.sampled_from(['plain'] * 7 + ['ambiguous', 'ambiguous', 'none']))
    d = dict(kind=kind, variant=variant)
    if variant == 'none':
        d['rename'] = draw(st.sampled_from(NONE_NAMES + sorted(OPT_IN_NONE_NAMES)))
        kind = d['kind'] = OPT_IN_NONE_NAMES.get(d['rename']) or draw(st.sampled_from(['packedpid', 'pid']))
    d['n'] = draw(st.one_of(st.sampled_from([0, 1, 2]), st.integers(0, 50), st.integers(3, 50)))
    d['p9dtype'] = draw(st.sampled_from(['u1', 'i1']))
    d['p9'] = draw(_p9()) if kind == 'pack9' else None
    if variant == 'ambiguous':
        other = draw(st.sampled_from([k for k in KINDS if k != kind]))
        d['other'] = dict(kind=other, n=draw(st.integers(0, 20)), p9=draw(_p9()) if other == 'pack9' else None)
    d['extra_cols'] = draw(st.sampled_from([0, 0, 1, 2]))
    d['header'] = dict(
        lc=draw(st.booleans()),
        simset=draw(st.sampled_from(['AbacusSummit', 'AbacusSummit', 'AbacusHighZ'])),
        box=draw(st.sampled_from(BOXES)),
        velz=draw(st.sampled_from(VELZ)),
        ppd=draw(st.sampled_from(PPDS)),
        subA=draw(st.sampled_from([0.03, 0.01, 0.0])),
        subB=draw(st.sampled_from([0.07, 0.09, 0.1])),
    )
    d['comp'] = draw(st.sampled_from(['none', 'none', 'zlib', 'blsc']))
    d['seed'] = draw(st.integers(0, 2**32 - 1))
    nreq = draw(st.sampled_from([1, 2, 3, 4, 5]))
    reqs = []
    for _ in range(nreq):
        target = 'primary'
        if variant == 'ambiguous' and draw(st.sampled_from([0, 0, 1])):
            target = 'other'
        tk = kind if target == 'primary' else d['other']['kind']
        r = draw(_request(loadable(tk), tk in ('rvint', 'pack9'), False))
        r['target'] = target
        if variant != 'plain':
            r['colname'] = draw(st.sampled_from(['auto', 'explicit', 'explicit']))  # auto must raise
        reqs.append(r)
    d['requests'] = reqs
    return d


def strategy(tier):
    return _desc()


def exhaustive(tier, shard, nshards):
    k = 0
    hdrs = [False] if tier == 'quick' else [False, True]
    orders = [False] if tier == 'quick' else [False, True]
    for kind, p9dtype in (('rvint', 'u1'), ('pack9', 'u1'), ('pack9', 'i1'), ('packedpid', 'u1'), ('pid', 'u1')):
        cols = loadable(kind)
        for dtype in ('f4', 'f8'):
            for lc in hdrs:
                for rev in orders:
                    for mask in range(1, 2 ** len(cols)):
                        k += 1
                        if k % nshards != shard:
                            continue
                        load = [c for i, c in enumerate(cols) if mask >> i & 1]
                        if rev:
                            load = load[::-1]
                        yield dict(
                            kind=kind,
                            variant='plain',
                            n=11,
                            p9dtype=p9dtype,
                            p9=dict(lead=0, segs=[[7, 300, 0, 6, 3, 2], [125, 4047, 124, 0, 77, 0], [1701, 1, 5, 1700, 850, 4]]) if kind == 'pack9' else None,
                            extra_cols=1,
                            header=dict(lc=lc, simset='AbacusSummit', box=2000.0, velz=31234.5, ppd=6912.0, subA=0.03, subB=0.07),
                            comp=['none', 'zlib', 'blsc'][k % 3],
                            seed=1000 + k,
                            requests=[dict(load=load, dtype=dtype, lp=None, lv=None, colname='auto', verbose=False, target='primary')],
                        )


# --------------------------------------------------------------------------- classification


def _canon(cols, load):
    return [c for c in cols if c in load]


def _p9_truncation(p9):
    if not p9:
        return False
    seen_particle = p9['lead'] > 0
    for s in p9['segs']:
        if seen_particle:
            return True  # a header record after at least one particle
        seen_particle = seen_particle or s[5] > 0
    return bool(p9['segs']) and (p9['lead'] + sum(s[5] for s in p9['segs'])) > 0


def nontrivial(d):
    if d['variant'] != 'plain':
        return True
    if d['kind'] == 'pack9' and _p9_truncation(d['p9']):
        return True
    cols = loadable(d['kind'])
    for r in d['requests']:
        if r['lp'] is not None or r['lv'] is not None:
            return True
        if r['load'] is not None and (len(r['load']) < len(cols) or list(r['load']) != _canon(cols, r['load'])):
            return True
    return False


def classes(d):
    c = ['type=' + d['kind'] + ('/' + d['p9dtype'] if d['kind'] == 'pack9' else ''), 'variant=' + d['variant'], 'comp=' + d['comp']]
    c.append('header=' + ('light-cone' if d['header']['lc'] else 'snapshot') + ('/AbacusSummit' if d['header']['simset'] == 'AbacusSummit' else '/other'))
    nrec = d['n'] if d['kind'] != 'pack9' else d['p9']['lead'] + sum(1 + s[5] for s in d['p9']['segs'])
    c.append('records=0' if nrec == 0 else 'records=1' if nrec == 1 else 'records>=2')
    if d['kind'] == 'pack9':
        p9 = d['p9']
        npart = p9['lead'] + sum(s[5] for s in p9['segs'])
        c.append('pack9: no particles' if npart == 0 else 'pack9: particles')
        if _p9_truncation(p9):
            c.append('pack9: headers interleaved (truncation)')
        if p9['lead']:
            c.append('pack9: particles before first header')
        if p9['segs'] and p9['segs'][-1][5] == 0:
            c.append('pack9: trailing header')
    cols = loadable(d['kind'])
    kinds = set()
    for r in d['requests']:
        if d['variant'] != 'plain' and r['colname'] == 'auto':
            kinds.add('request: auto colname on ambiguous/none file (must raise)')
            continue
        if r['lp'] is not None or r['lv'] is not None:
            kinds.add('request: deprecated flags' + (' + load' if r['load'] is not None else ''))
        if r['load'] is None:
            if r['lp'] is None and r['lv'] is None:
                kinds.add('request: defaults')
        else:
            tcols = cols if r.get('target', 'primary') == 'primary' else loadable(d['other']['kind'])
            if len(r['load']) < len(tcols):
                kinds.add('request: strict subset')
            if len(r['load']) == 1:
                kinds.add('request: single column')
            if list(r['load']) != _canon(tcols, r['load']):
                kinds.add('request: non-canonical order')
        kinds.add('request: dtype=' + r['dtype'])
        if r['colname'] == 'explicit':
            kinds.add('request: explicit colname')
    return c + sorted(kinds)


def extra_evidence():
    return dict(_stats)


# --------------------------------------------------------------------------- fixture + reference


def _validate(d):
    try:
        if d['kind'] not in KINDS or d['variant'] not in ('plain', 'ambiguous', 'none') or d['comp'] not in ('none', 'zlib', 'blsc'):
            raise Reject('unknown kind/variant/compression')
        if not (0 <= d['n'] <= 5000) or not (1 <= len(d['requests']) <= 70):
            raise Reject('sizes out of range')
        if d['variant'] == 'none':
            # Generated: pid-like names only (NONE_NAMES).  Hand-written descriptors may also name an rvint/pack9 column
            # with a cleaned_rvpid-style suffix (OPT_IN_NONE_NAMES) - see the candidate finding in sensitivity/C16.md.
            ok = (d['kind'] in ('packedpid', 'pid') and d.get('rename') in NONE_NAMES) or OPT_IN_NONE_NAMES.get(d.get('rename')) == d['kind']
            if not ok:
                raise Reject('none-variant needs a non-standard column name matching its kind')
        if d['variant'] == 'ambiguous' and (d['other']['kind'] == d['kind'] or d['other']['kind'] not in KINDS):
            raise Reject('ambiguous variant needs a different second raw column')
        for p9 in [d['p9'] if d['kind'] == 'pack9' else None, d['other']['p9'] if d['variant'] == 'ambiguous' and d['other']['kind'] == 'pack9' else None]:
            if p9 is None:
                continue
            if not (0 <= p9['lead'] <= 50 and len(p9['segs']) <= 50):
                raise Reject('pack9 grammar out of range')
            for cpd, vf, i, j, k, npart in p9['segs']:
                if not (1 <= cpd <= 4047 and 0 <= vf <= 4047 and all(0 <= x < cpd for x in (i, j, k)) and 0 <= npart <= 200):
                    raise Reject('pack9 header outside the documented domain')
        h = d['header']
        if not (h['box'] > 0 and h['velz'] > 0 and h['ppd'] >= 1):
            raise Reject('header values out of range')
        for r in d['requests']:
            tk = d['kind'] if r.get('target', 'primary') == 'primary' else d['other']['kind']
            cols = loadable(tk)
            if r['load'] is not None and (len(r['load']) == 0 or len(set(r['load'])) != len(r['load']) or any(c not in cols for c in r['load'])):
                raise Reject('load list not a non-empty duplicate-free subset of the loadable columns')
            if (r['lp'] is not None or r['lv'] is not None) and tk not in ('rvint', 'pack9'):
                raise Reject('deprecated flags on a pid file')
            if r['dtype'] not in ('f4', 'f8'):
                raise Reject('dtype')
    except (KeyError, TypeError, ValueError) as e:
        raise Reject('malformed descriptor: %r' % (e,))


def _raw(kind, n, p9, p9dtype, seed):
    """Raw column for one kind, pure function of the arguments."""
    if kind == 'rvint':
        return asdf_files.random_array(seed, (n, 3), '<i4')
    if kind in ('packedpid', 'pid'):
        return asdf_files.random_array(seed + 1, (n,), '<u8')
    # pack9
    npart_total = p9['lead'] + sum(s[5] for s in p9['segs'])
    body = asdf_files.random_array(seed + 2, (npart_total, 9), 'u1')
    body[:, 0] = np.where(body[:, 0] == 0xFF, 0xFE, body[:, 0])  # 0xFF in byte 0 is the header marker
    recs = []
    used = 0
    if p9['lead']:
        recs.append(body[: p9['lead']])
        used = p9['lead']
    for cpd, vf, i, j, k, npart in p9['segs']:
        recs.append(D.pack9_encode_header(cpd, vf, (i, j, k), low_nibble=(cpd + vf) % 16)[None, :])
        recs.append(body[used : used + npart])
        used += npart
    out = np.concatenate(recs, axis=0) if recs else np.zeros((0, 9), dtype=np.uint8)
    out = np.ascontiguousarray(out, dtype=np.uint8)
    return out.view(np.int8) if p9dtype == 'i1' else out


def _header(d):
    h = d['header']
    hdr = {
        'BoxSize': float(h['box']),
        'VelZSpace_to_kms': float(h['velz']),
        'ppd': h['ppd'],
        'SimName': 'verif_c16_%d' % (d['seed'] % 1000),
        'SimSet': h['simset'],
        'ParticleSubsampleA': float(h['subA']),
        'ParticleSubsampleB': float(h['subB']),
        'NP': int(round(float(h['ppd']))) ** 3,
        'TimeSliceRedshifts': [3.0, 2.5, 0.5, 0.1],
        'CPD': 1701,
        'nested': {'a': 1, 'b': [1.5, 'x']},
        'Redshift': 0.5,
    }
    if h['lc']:
        hdr['OutputType'] = 'LightCone'
        hdr['LightConeOrigins'] = [[-990.0, -990.0, -990.0]]
    elif d['seed'] % 2:
        hdr['OutputType'] = 'TimeSlice'
    return hdr


def _reference(kind, raw, hdr, dtype):
    """dict column -> (expected array, absolute tolerance array or 0, mask of rows whose value is defined)."""
    box, velz = hdr['BoxSize'], hdr['VelZSpace_to_kms']
    ppd = int(round(hdr['ppd']))
    ref = {}
    if kind == 'rvint':
        pos, vel = D.ref_rvint_decode(raw, box, dtype)
        ptol, vtol = D.rvint_tol(raw, box, dtype)
        ok = np.ones(len(raw), dtype=bool)
        ref['pos'] = (pos, ptol, ok)
        ref['vel'] = (vel, vtol, ok)
        n = len(raw)
    elif kind == 'pack9':
        pos, vel, info = D.ref_pack9_decode(raw, box, velz, dtype, info=True)
        e = 6 * D.feps(dtype)
        defined = info['defined']
        ref['pos'] = (pos, np.where(defined[:, None], e * info['pos_scale'], 0.0), defined)
        ref['vel'] = (vel, np.where(defined[:, None], e * info['vel_scale'], 0.0), defined)
        n = info['n']
    else:
        r = D.ref_aux_decode(raw, box, ppd, dtype)
        ok = np.ones(len(raw), dtype=bool)
        ref['pid'] = (r['pid'], 0, ok)
        ref['lagr_idx'] = (r['lagr_idx'], 0, ok)
        ref['tagged'] = (r['tagged'], 0, ok)
        ref['density'] = (r['density'], 0, ok)
        ref['lagr_pos'] = (r['lagr_pos'], D.lagr_pos_tol(r['lagr_idx'], box, ppd, dtype), ok)
        ref['aux'] = (np.asarray(raw), 0, ok)
        n = len(raw)
    return ref, n


FLOAT_COLS = ('pos', 'vel', 'lagr_pos', 'density')
INT_DTYPES = {'pid': np.int64, 'lagr_idx': np.int16, 'tagged': np.uint8, 'aux': np.uint64}
SHAPES3 = ('pos', 'vel', 'lagr_pos', 'lagr_idx')


def _check_column(name, got, ref, n, dtype, what):
    exp, tol, defined = ref
    got = np.asarray(got)
    want_shape = (n, 3) if name in SHAPES3 else (n,)
    if got.shape != want_shape:
        raise Violation('read-asdf-length', '%s: column %r has shape %r, expected %r (one row per particle)' % (what, name, got.shape, want_shape))
    if name in FLOAT_COLS:
        if got.dtype != np.dtype(dtype):
            raise Violation('read-asdf-float-dtype', '%s: column %r has dtype %s, requested %s' % (what, name, got.dtype, np.dtype(dtype)))
    elif got.dtype != np.dtype(INT_DTYPES[name]):
        raise Violation('read-asdf-int-dtype', '%s: column %r has dtype %s, documented %s' % (what, name, got.dtype, np.dtype(INT_DTYPES[name])))
    if n == 0:
        return
    g = got[defined].astype(np.float64) if name in FLOAT_COLS else got[defined]
    e = np.asarray(exp)[defined]
    if name in FLOAT_COLS:
        t = np.broadcast_to(np.asarray(tol, dtype=np.float64), np.asarray(exp).shape)[defined]
        bad = ~(np.abs(g - e.astype(np.float64)) <= t)
    else:
        bad = g.astype(np.int64, copy=False) != e.astype(np.int64, copy=False) if name != 'aux' else g != e
    if np.any(bad):
        i = tuple(int(x[0]) for x in np.nonzero(bad))
        raise Violation(
            'read-asdf-%s-wrong' % name,
            '%s: column %r: %d of %d values differ from the reference decoding of the raw column; first at defined-row index %r: got %r expected %r'
            % (what, name, int(bad.sum()), bad.size, i, g[i].item(), e[i].item()),
        )
    _stats['columns_compared_with_reference'] += 1


def _call(fn, r, colname, load):
    from abacusnbody.data.read_abacus import read_asdf

    # dtype is passed as the scalar type class (np.float32 / np.float64), which is what the default and the repository's
    # own callers use; 'dtype_as': 'instance' (np.dtype('f8')) is accepted in hand-written descriptors only.
    dt = np.dtype(r['dtype'])
    kw = dict(dtype=dt if r.get('dtype_as') == 'instance' else dt.type, verbose=bool(r['verbose']))
    if load is not None:
        load = list(load)
        if r.get('dup') is not None and load:
            load = load + [load[r['dup'] % len(load)]]
        kw['load'] = load if r.get('load_as', 'list') == 'list' else tuple(load)
    if colname is not None:
        kw['colname'] = colname
    if r['lp'] is not None:
        kw['load_pos'] = r['lp']
    if r['lv'] is not None:
        kw['load_vel'] = r['lv']
    _stats['reads'] += 1
    with warnings.catch_warnings():
        warnings.simplefilter('ignore')
        return read_asdf(fn, **kw)


def run_case(d):
    _validate(d)
    env.register_asdf()
    import os

    hdr = _header(d)
    seed = int(d['seed'])
    kind = d['kind']
    raws = {'primary': (kind, _raw(kind, d['n'], d['p9'], d['p9dtype'], seed))}
    names = {'primary': d['rename'] if d['variant'] == 'none' else kind}
    if d['variant'] == 'ambiguous':
        o = d['other']
        raws['other'] = (o['kind'], _raw(o['kind'], o['n'], o['p9'], d['p9dtype'], seed + 77))
        names['other'] = o['kind']
    data = {}
    extras = [('density_extra', asdf_files.random_array(seed + 5, (4,), '<f4')), ('rvint_B_extra', asdf_files.random_array(seed + 6, (2, 3), '<i4'))][: d['extra_cols']]
    if extras and seed % 2:
        data[extras[0][0]] = extras[0][1]
    order = ['primary', 'other'] if seed % 3 else ['other', 'primary']
    for t in order:
        if t in raws:
            data[names[t]] = raws[t][1]
    for nm, arr in extras:
        data.setdefault(nm, arr)

    tmp = asdf_files.scratch_dir('c16')
    try:
        fn = os.path.join(tmp, 'particles_%03d.asdf' % (seed % 1000))
        asdf_files.write_asdf(fn, hdr, data, d['comp'])
        _stats['fixture_files_written'] += 1
        want = {'none': b'\0\0\0\0', 'zlib': b'zlib', 'blsc': b'blsc'}[d['comp']]
        labels = asdf_files.block_compressions(fn)
        if len(labels) != len(data) or any(lb != want for lb in labels):
            raise RuntimeError('fixture %s: block compressions %r, wanted %d x %r' % (fn, labels, len(data), want))

        refs = {}  # (target, dtype) -> (reference dict, n)
        seen = {}  # (target, dtype, column) -> bytes of the column in the all-columns request

        def reference(target, dtype):
            key = (target, dtype)
            if key not in refs:
                refs[key] = _reference(raws[target][0], raws[target][1], hdr, np.dtype(dtype))
            return refs[key]

        def check_table(table, target, dtype, expect_cols, what, flags=None):
            ref, n = reference(target, dtype)
            tk = raws[target][0]
            cols = list(table.colnames)
            if len(set(cols)) != len(cols):
                raise Violation('read-asdf-columns', '%s: duplicate columns %r' % (what, cols))
            if expect_cols is not None and set(cols) != set(expect_cols):
                raise Violation('read-asdf-columns', '%s: table has columns %r, expected exactly %r' % (what, sorted(cols), sorted(expect_cols)))
            if flags is not None:
                for col, fl in flags:
                    if fl is True and col not in cols:
                        raise Violation('read-asdf-deprecated-flag', '%s: load_%s=True but no %r column (columns %r)' % (what, col, col, cols))
                    if fl is False and col in cols:
                        raise Violation('read-asdf-deprecated-flag', '%s: load_%s=False but a %r column is present' % (what, col, col))
            extra = [c for c in cols if c not in loadable(tk)]
            if extra:
                raise Violation('read-asdf-columns', '%s: unexpected columns %r' % (what, extra))
            if cols and len(table) != n:
                raise Violation('read-asdf-length', '%s: table has %d rows, file has %d particles' % (what, len(table), n))
            for c in cols:
                _check_column(c, table[c], ref[c], n, np.dtype(dtype), what)
            # metadata
            meta = table.meta
            for k, v in hdr.items():
                if k not in meta:
                    raise Violation('read-asdf-meta', '%s: header key %r missing from table.meta' % (what, k))
                if meta[k] != v:
                    raise Violation('read-asdf-meta', '%s: meta[%r] = %r, header has %r' % (what, k, meta[k], v))
            if hdr.get('OutputType') == 'LightCone' and hdr['SimSet'] == 'AbacusSummit':
                sf = hdr['ParticleSubsampleA'] + hdr['ParticleSubsampleB']
                if 'SubsampleFraction' not in meta or not (abs(meta['SubsampleFraction'] - sf) <= 1e-15):
                    raise Violation('read-asdf-meta-subsample', '%s: SubsampleFraction = %r, expected A+B = %r' % (what, meta.get('SubsampleFraction'), sf))
            return cols

        def baseline(target, dtype):
            """The all-columns request: every column, bytes remembered for the identity check."""
            if (target, dtype, '#done') in seen:
                return
            tk = raws[target][0]
            cols = loadable(tk)
            explicit = names[target] if d['variant'] != 'plain' else None
            r0 = dict(dtype=dtype, verbose=False, lp=None, lv=None)
            what = 'read_asdf(%s file, load=%r, dtype=%s%s)' % (tk, cols, dtype, ', colname=%r' % explicit if explicit else '')
            t = call_repo(_call, fn, r0, explicit, cols, _sig='raised:read_asdf')
            check_table(t, target, dtype, cols, what)
            for c in cols:
                seen[(target, dtype, c)] = np.ascontiguousarray(np.asarray(t[c])).tobytes()
            seen[(target, dtype, '#done')] = True

        for ri, r in enumerate(d['requests']):
            target = r.get('target', 'primary')
            if target not in raws:
                raise Reject('request targets a column the file does not have')
            tk = raws[target][0]
            cols_all = loadable(tk)
            dtype = r['dtype']
            explicit = names[target] if r['colname'] == 'explicit' else None
            what = 'request #%d read_asdf(%s/%s file%s, load=%r, dtype=%s, load_pos=%r, load_vel=%r, colname=%r)' % (
                ri, d['variant'], '+'.join(names[t] for t in order if t in names), ', ' + d['comp'], r['load'], dtype, r['lp'], r['lv'], explicit)
            _stats['requests_checked'] += 1
            if d['variant'] != 'plain' and explicit is None:
                # several / none of the known raw columns and no colname: must raise
                try:
                    t = _call(fn, r, None, r['load'])
                except Exception:
                    _stats['error_cases_checked'] += 1
                    continue
                raise Violation('read-asdf-ambiguity-not-reported', '%s: no error although the file has %s of the known raw columns; got columns %r' % (
                    what, 'several' if d['variant'] == 'ambiguous' else 'none', list(t.colnames)))
            sig = 'raised:read_asdf'
            if d['variant'] == 'none' and d.get('rename') in OPT_IN_NONE_NAMES:
                sig = 'read-asdf-named-column-unsupported'  # opt-in descriptors only (candidate finding)
            elif r.get('dtype_as') == 'instance':
                sig = 'read-asdf-dtype-instance'  # opt-in descriptors only (observation)
            t = call_repo(_call, fn, r, explicit, r['load'], _sig=sig)
            flags = None
            if r['lp'] is None and r['lv'] is None:
                expect = list(r['load']) if r['load'] is not None else (['pos', 'vel'] if tk in ('rvint', 'pack9') else ['pid'])
            else:
                flags = [('pos', r['lp']), ('vel', r['lv'])]
                expect = None
                if r['load'] is None and tk in ('rvint', 'pack9') and (r['lp'], r['lv']) in ((True, None), (None, True)):
                    # exactly one column was named (flag True) and nothing was said about the other: it was not requested
                    expect = ['pos'] if r['lp'] else ['vel']
                if r['load'] is not None:
                    contradict = any((fl is True and c not in r['load']) or (fl is False and c in r['load']) for c, fl in flags)
                    if contradict:
                        flags = None  # `load` and a contradicting deprecated flag: nothing documented to assert about the set
                    else:
                        expect = list(r['load'])
            got_cols = check_table(t, target, dtype, expect, what, flags)
            if got_cols:
                baseline(target, dtype)
                for c in got_cols:
                    b = np.ascontiguousarray(np.asarray(t[c])).tobytes()
                    if b != seen[(target, dtype, c)]:
                        raise Violation('read-asdf-depends-on-co-requests', '%s: column %r differs bit-for-bit from the same column of the all-columns request' % (what, c))
                    _stats['columns_compared_bitwise'] += 1
        return None
    finally:
        asdf_files.remove_dir(tmp)
