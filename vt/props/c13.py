"""C13 — the power-spectrum estimate has the symmetries of the estimator.

Metamorphic relations of calc_power against a base run (fresh copies of pos; TSC wraps in place):
permutation of the particles, translation by whole cells with periodic wrap, thread count, pos2 = pos (cross == auto),
exchange of the x and y coordinates (the line of sight is z);
N_mode / k and mu ranges / table shape are exact and identical for a *different* particle set on the same mesh/binning and for the
other field precision.
"""
import warnings

import numpy as np
from hypothesis import strategies as st

from vt.core import Violation, call_repo

ID = 'C13'
RULE = (
    'descriptor = particle set (N 1..300, seed; lattice/clustered/uniform mix) x nmesh 4..16 x BoxSize (dyadic, awkward) x TSC/CIC x compensated x interlaced x '
    'kbins (int, explicit edges, logk) x mubins (None,int) x poles subset of {0,2,4} x weights x nthread {1,2,3,16} x float32/64 field x a permutation seed, a whole-cell shift vector, a second thread count; '
    'non-trivial = >=8 particles not on a lattice, >=2 k-bins, and a non-identity transformation; distinct = descriptor hash.'
)
ASSUMPTIONS = [
    'float comparisons: atol 2e-4*max|P| (per column) + noise floor 1e-10*L^3*max(1,ncell/N)^2, rtol 1e-3 for power/poles/k_avg (float32 field + FFT); N_mode, N_mode_poles, k_min/k_max/k_mid, mu_* exact',
    'CIC positions stay strictly inside [0,L) (cic_serial does not wrap); whole-cell shifts are applied in float64 and wrapped before casting',
    'symmetries do not pin the absolute normalisation or the mode bookkeeping (C08 covers that)',
]


def config(tier):
    if tier == 'quick':
        return dict(shards=8, examples=40, numba_threads=16, soft_s=170, shrink_calls=40, shrink_max_sigs=1)
    return dict(shards=16, examples=320, numba_threads=16, soft_s=1300, shrink_calls=120)


@st.composite
def _desc(draw, tier):
    nmesh = draw(st.integers(4, 16))
    box = draw(st.sampled_from([64.0, 1.0, 2000.0, 123.0, 7.3]))
    n = draw(st.one_of(st.integers(1, 20), st.integers(8, 300)))
    kb = draw(st.sampled_from(['int', 'int', 'edges', 'logk', 'none']))
    nk = draw(st.integers(1, 8))
    edges = None
    if kb == 'edges':
        kf = 2 * np.pi / box
        raw = sorted(set(draw(st.lists(st.floats(0.0, 1.2 * nmesh / 2 * 1.8), min_size=2, max_size=7))))
        if len(raw) < 2:
            raw = [0.0, nmesh / 2.0]
        edges = [float(r * kf) for r in raw]
    return dict(nmesh=nmesh, box=box, n=n, seed=draw(st.integers(0, 2**31 - 1)), dist=draw(st.sampled_from(['uniform', 'uniform', 'clustered', 'lattice'])),
                paste=draw(st.sampled_from(['TSC', 'TSC', 'CIC'])), compensated=draw(st.booleans()), interlaced=draw(st.booleans()), kb=kb, nk=nk, edges=edges,
                mubins=draw(st.sampled_from([None, None, 1, 2, 4])), poles=draw(st.sampled_from([None, [0], [0, 2], [0, 2, 4], [2, 4]])), weights=draw(st.booleans()),
                nthread=draw(st.sampled_from([1, 2, 3, 16])), nthread2=draw(st.sampled_from([1, 2, 3, 5, 16])), fdtype=draw(st.sampled_from(['f4', 'f4', 'f8'])), pdtype=draw(st.sampled_from(['f4', 'f4', 'f8'])),
                shift=[draw(st.integers(-nmesh, nmesh)) for _ in range(3)], permseed=draw(st.integers(0, 2**31 - 1)))


def strategy(tier):
    return _desc(tier)


def nontrivial(d):
    nk = d['nk'] if d['kb'] in ('int', 'logk') else (len(d['edges']) - 1 if d['kb'] == 'edges' else d['nmesh'])
    return d['n'] >= 8 and d['dist'] != 'lattice' and nk >= 2 and (any(s % d['nmesh'] for s in d['shift']) or d['nthread'] != d['nthread2'])


def classes(d):
    return [d['paste'], 'comp=%d' % d['compensated'], 'inter=%d' % d['interlaced'], 'kb=' + d['kb'], 'mu=' + str(d['mubins']), 'poles=' + ('none' if not d['poles'] else ''.join(map(str, d['poles']))),
            'field=' + d['fdtype'], 'nmesh=' + ('odd' if d['nmesh'] % 2 else 'even'), 'w=%d' % d['weights'], 'dist=' + d['dist']]


def _particles(d, seed_shift=0):
    rng = np.random.Generator(np.random.PCG64(d['seed'] + seed_shift))
    n, box = d['n'], d['box']
    dt = np.float32 if d['pdtype'] == 'f4' else np.float64
    if d['dist'] == 'lattice':
        g = max(1, int(round(n ** (1 / 3))))
        ii = np.stack(np.meshgrid(*[np.arange(g)] * 3, indexing='ij'), -1).reshape(-1, 3)[:n]
        pos = (ii + 0.37) * (box / g)
    elif d['dist'] == 'clustered':
        c = rng.uniform(0, box, size=(max(1, n // 10), 3))
        pos = c[rng.integers(0, len(c), size=n)] + rng.normal(size=(n, 3)) * box * 0.02
        pos = np.mod(pos, box)
    else:
        pos = rng.uniform(0, box, size=(n, 3))
    pos = np.mod(pos, box).astype(dt)
    pos = _inside(pos, box)
    w = rng.uniform(0.5, 2.0, size=len(pos)).astype(dt) if d['weights'] else None
    return pos, w


def _inside(pos, box):
    dt = pos.dtype.type
    bad = pos.astype(np.float64) >= box
    while bad.any():
        pos[bad] = np.nextafter(pos[bad], dt(0))
        bad = pos.astype(np.float64) >= box
    pos[pos < 0] = 0
    return pos


def _kwargs(d):
    kw = dict(paste=d['paste'], nmesh=d['nmesh'], compensated=d['compensated'], interlaced=d['interlaced'], poles=d['poles'], dtype=np.float32 if d['fdtype'] == 'f4' else np.float64)
    if d['kb'] == 'int':
        kw['kbins'] = d['nk']
    elif d['kb'] == 'logk':
        kw['kbins'] = d['nk']
        kw['logk'] = True
    elif d['kb'] == 'edges':
        kw['kbins'] = np.array(d['edges'], dtype=np.float64)
    if d['mubins'] is not None:
        kw['mubins'] = d['mubins']
    return kw


def _run(ps, d, pos, w, nthread, pos2=None, w2=None, alias=False):
    with warnings.catch_warnings():
        warnings.simplefilter('ignore')
        p1 = pos.copy()
        w1 = None if w is None else w.copy()
        if alias:
            # "passing the same particles as the second field": the very same array objects, as a caller naturally would
            return call_repo(ps.calc_power, p1, d['box'], w=w1, pos2=p1, w2=w1, nthread=nthread, **_kwargs(d))
        return call_repo(ps.calc_power, p1, d['box'], w=w1, pos2=None if pos2 is None else pos2.copy(), w2=None if w2 is None else w2.copy(), nthread=nthread, **_kwargs(d))


EXACT = ('N_mode', 'N_mode_poles', 'k_min', 'k_max', 'k_mid', 'mu_min', 'mu_max', 'mu_mid')
FLOATS = ('power', 'poles', 'k_avg')


def _compare(base, other, what, floats=True, floor=0.0):
    if list(base.colnames) != list(other.colnames) or len(base) != len(other):
        raise Violation('table-shape-differs', '%s: columns/rows %s x %d vs %s x %d' % (what, base.colnames, len(base), other.colnames, len(other)))
    for c in base.colnames:
        a, b = np.asarray(base[c]), np.asarray(other[c])
        if a.shape != b.shape:
            raise Violation('table-shape-differs', '%s: column %s shape %s vs %s' % (what, c, a.shape, b.shape))
        if c in EXACT:
            if not np.array_equal(a, b, equal_nan=True):
                raise Violation('bookkeeping-differs:' + what.split(':')[0], '%s: column %s not identical' % (what, c))
        elif c in FLOATS and floats:
            a64, b64 = a.astype(np.float64), b.astype(np.float64)
            fin = np.isfinite(a64)
            if not np.array_equal(fin, np.isfinite(b64)):
                raise Violation('symmetry-broken:' + what.split(':')[0], '%s: column %s finite/NaN pattern differs' % (what, c))
            if fin.any():
                scale = float(np.max(np.abs(a64[fin])))
                fl = floor if c in ('power', 'poles') else 0.0
                ok = np.abs(a64[fin] - b64[fin]) <= 2e-4 * scale + 1e-3 * np.abs(a64[fin]) + fl + 1e-30
                if not ok.all():
                    i = int(np.flatnonzero(~ok)[0])
                    raise Violation('symmetry-broken:' + what.split(':')[0], '%s: column %s differs: %r vs %r (max|col| %g)' % (what, c, a64[fin][i], b64[fin][i], scale))


def run_case(d):
    from abacusnbody.analysis import power_spectrum as ps

    pos, w = _particles(d)
    box, nmesh = d['box'], d['nmesh']
    base = _run(ps, d, pos, w, d['nthread'])
    cls = []
    # absolute floor: a field whose true power vanishes (particles on a lattice commensurate with the mesh) leaves pure
    # float32 rounding noise, P ~ (eps * ncell/N)^2 * L^3; the floor is >= 4 decades above that and >= 3 decades below shot noise L^3/N
    floor = 1e-10 * box**3 * max(1.0, nmesh**3 / float(len(pos))) ** 2
    # permutation
    perm = np.random.Generator(np.random.PCG64(d['permseed'])).permutation(len(pos))
    _compare(base, _run(ps, d, pos[perm], None if w is None else w[perm], d['nthread']), 'permutation', floor=floor)
    # whole-cell translation with periodic wrap
    sh = np.array(d['shift'], dtype=np.float64) * (box / nmesh)
    p2 = np.mod(pos.astype(np.float64) + sh, box).astype(pos.dtype)
    p2 = _inside(p2, box)
    _compare(base, _run(ps, d, p2, w, d['nthread']), 'translation', floor=floor)
    # thread count
    if d['nthread2'] != d['nthread']:
        _compare(base, _run(ps, d, pos, w, d['nthread2']), 'threads', floor=floor)
        cls.append('threads-differ')
    # cross == auto
    _compare(base, _run(ps, d, pos, w, d['nthread'], pos2=pos, w2=w), 'cross=auto', floor=floor)
    _compare(base, _run(ps, d, pos, w, d['nthread'], alias=True), 'cross=auto:same-array-object', floor=floor)
    # the line of sight is z: exchanging the x and y coordinates of every particle is a symmetry of the estimator (title clause;
    # the statement's list names four relations, this fifth one distinguishes the axes - e.g. an interlacing phase or a window
    # that is wrong along one axis only is invisible to the other four)
    _compare(base, _run(ps, d, np.ascontiguousarray(pos[:, [1, 0, 2]]), w, d['nthread']), 'xy-swap', floor=floor)
    # bookkeeping is a function of the mesh and the binning only: not of the particles (below), nor of the precision the field is
    # painted in
    other_dt = dict(d, fdtype='f8' if d['fdtype'] == 'f4' else 'f4')
    _compare(base, _run(ps, other_dt, pos, w, d['nthread']), 'other-field-dtype', floats=False)
    # bookkeeping independent of the particles
    q, wq = _particles(dict(d, n=max(1, d['n'] // 2 + 1), dist='uniform'), seed_shift=17)
    _compare(base, _run(ps, d, q, wq, d['nthread']), 'other-particles', floats=False)
    return {'classes': cls}
