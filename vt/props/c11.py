"""C11 — compiled kernels never access memory outside their arrays.

Oracle: execution under numba's bounds-checking semantics.  Every worker of this check runs with
NUMBA_BOUNDSCHECK=1 (set before numba is imported), so every compiled kernel raises IndexError (surfacing as
IndexError/SystemError) on an out-of-range index; negative indices >= -len are legal wrap-around exactly as in numpy, so
TSC's intended negative-index wrap is not flagged.  Inside prange bodies that error only propagates from the calling
thread's chunk (found with a seeded change, DESIGN 10.5), so six further shards run the parallel kernels as their Python
source (py_func twins), where every iteration executes in the calling thread.

Inputs: (a) the precondition-satisfying strategies of the other property modules (decoders, pack9, cumsum, partition,
mass assignment, catalog zipper, mode binning, HOD passes, power-spectrum pipeline) re-run under the bounds checker -
only bounds errors count here, their own oracles are ignored; (b) dedicated boundary strategies for kernels or regions
those do not reach (bin_kppi with pimax below the largest kz, all modes beyond/below the edges, linear_interp within
ulps of the ends, expand_poles_to_3d, odd npartition with one thread, one-cell-thick CIC grid, empty inputs, ...).
"""
import importlib
import os
import warnings

import numpy as np
from hypothesis import strategies as st

from vt.core import Reject, Violation

ID = 'C11'
RULE = (
    'every shard runs under NUMBA_BOUNDSCHECK=1; descriptor = (kernel group, sub-descriptor): groups reuse the generators of C01/C04/C06/C08/C09/C13/C15/C17/C19 '
    'or are dedicated boundary generators (bin_kppi, bin_kmu, linear_interp, expand_poles_to_3d, mesh kernels, tsc configurations incl. odd npartition with one thread, '
    'one-cell-thick CIC grid, fast_concatenate, getPointsOnSphere); non-trivial = the input hits a listed boundary class (empty, single element, zero-particle halo, gz==1, '
    'position on a domain boundary, all modes beyond the last edge, pimax below the largest kz, xd at an end); distinct = (group, descriptor) hash.'
)
ASSUMPTIONS = [
    "numba's bounds checker (NUMBA_BOUNDSCHECK=1) flags every out-of-range array index in compiled code that runs in the calling thread; inside a prange body the error propagates only from the calling thread's chunk (measured on numba 0.67 with the OpenMP and workqueue layers: a worker thread's IndexError is dropped and the kernel returns a truncated result)",
    'therefore 6 of the 18 shards run every parallel=True kernel as its Python source (dispatcher.py_func: prange = range, all iterations in the calling thread, inner kernels still compiled and bounds-checked); there any out-of-range index raises IndexError; non-index exceptions of the Python twins are not judged',
    'raw-pointer writes (blosc.decompress_ptr) are outside the bounds checker; C14 covers that call with a canary',
    'TSC grids: >=3 cells per axis (2 cells only with offset <= h/2); NFW satellite path (unseeded RNG, documented as unoptimized) is not exercised',
]

REUSED = {
    'cumsum': 'c19',
    'bitpacked': 'c04',
    'pack9': 'c15',
    'partition': 'c17',
    'massassign': 'c06',
    'catalog': 'c01',
    'binning': 'c08',
    'hod': 'c09',
    'power': 'c13',
}
EXTRA = ['bin_kppi', 'bin_kmu', 'interp', 'mesh', 'tsc_cfg', 'cic_flat', 'concat', 'sphere']
GROUPS = list(REUSED) + ['extra', 'extra', 'extra']
# "Twin" shards.  Observed on this numba (0.67, OpenMP and workqueue layers alike): an exception raised inside a prange body - which is
# how a bounds error surfaces - propagates only when it happens in the chunk the calling thread executes; in a worker thread's chunk it
# is dropped and the kernel returns a truncated result.  So for the kernels whose indexing depends on the thread block
# (HOD passes, partition, TSC stripes, mode binning, mesh kernels, concatenate, sphere points) the compiled run under the bounds
# checker sees only part of the iteration space.  The twin shards run the *same source* of every parallel=True kernel as plain Python
# (dispatcher.py_func, prange = range, every iteration in the calling thread; inner non-parallel kernels stay compiled and
# bounds-checked), where any out-of-range index raises IndexError.
TWIN_GROUPS = ['hod', 'partition', 'massassign', 'binning', 'power', 'extra']
SHARD_PLAN = [(g, False) for g in GROUPS] + [(g, True) for g in TWIN_GROUPS]
BOUNDS_MARKERS = ('IndexError', 'SystemError', 'out-of-bounds', 'canary', 'process-killed')


def config(tier):
    if tier == 'quick':
        return dict(shards=18, examples=70, numba_threads=4, boundscheck=True, soft_s=200, shrink_calls=40, shrink_max_sigs=2)
    return dict(shards=18, examples=1200, numba_threads=4, boundscheck=True, soft_s=1500, shrink_calls=150)


def _plan_for_shard():
    s = int(os.environ.get('VERIF_SHARD', '0'))
    return SHARD_PLAN[s % len(SHARD_PLAN)]


def _group_for_shard():
    return _plan_for_shard()[0]


_twins = {'on': False, 'patched': []}
_PAR_MODULES = ['abacusnbody.util', 'abacusnbody.data.bitpacked', 'abacusnbody.data.pack9', 'abacusnbody.data.compaso_halo_catalog', 'abacusnbody.analysis.tsc',
                'abacusnbody.analysis.cic', 'abacusnbody.analysis.power_spectrum', 'abacusnbody.hod.GRAND_HOD', 'abacusnbody.hod.abacus_hod']


def _enable_twins():
    """Replace every parallel=True dispatcher that is a module attribute by its Python source function (once per process)."""
    if _twins['on']:
        return
    for mn in _PAR_MODULES:
        try:
            mod = importlib.import_module(mn)
        except Exception:
            continue
        for name, obj in list(vars(mod).items()):
            if hasattr(obj, 'py_func') and hasattr(obj, 'targetoptions') and obj.targetoptions.get('parallel'):
                setattr(mod, name, obj.py_func)
                _twins['patched'].append('%s.%s' % (mn.split('.')[-1], name))
    _twins['on'] = True


_mods = {}


def _mod(name):
    if name not in _mods:
        _mods[name] = importlib.import_module('vt.props.' + name)
    return _mods[name]


# ------------------------------------------------------------------ dedicated boundary strategies


@st.composite
def _extra(draw):
    k = draw(st.sampled_from(EXTRA))
    d = {'k': k}
    if k in ('bin_kppi', 'bin_kmu'):
        n = draw(st.integers(1 if k == 'bin_kmu' else 2, 12))
        d['n'] = n
        d['L'] = draw(st.sampled_from([1.0, 2 * np.pi, 1000.0, 37.5]))
        corner = (3 ** 0.5) * n / 2 + 1
        kind = draw(st.sampled_from(['inside', 'all-below-first', 'all-beyond-last', 'wide', 'narrow']))
        d['ekind'] = kind
        ne = draw(st.integers(1, 6))
        if kind == 'all-below-first':
            lo, hi = corner + 1, corner + 5
        elif kind == 'all-beyond-last':
            lo, hi = 0.0, 0.4
        elif kind == 'wide':
            lo, hi = 0.0, corner + 2
        elif kind == 'narrow':
            lo = draw(st.floats(0, corner))
            hi = lo + draw(st.floats(0.01, 1.0))
        else:
            lo = draw(st.floats(0, n / 2))
            hi = lo + draw(st.floats(0.3, corner))
        d['edges'] = [lo + (hi - lo) * i / ne for i in range(ne + 1)]
        d['nthread'] = draw(st.sampled_from([1, 2, 4]))
        d['fourier'] = draw(st.sampled_from([True, True, False]))
        d['seed'] = draw(st.integers(0, 2**31 - 1))
        if k == 'bin_kppi':
            d['pimax_units'] = draw(st.one_of(st.sampled_from([0.3, 0.5, 1.0, n / 2 - 0.5, n / 2, n / 2 + 0.5, n]), st.floats(0.1, n + 1.0)))
            d['npi'] = draw(st.integers(1, 6))
        else:
            nm = draw(st.integers(1, 6))
            inner = sorted(set(draw(st.lists(st.floats(0.01, 0.99), min_size=nm - 1, max_size=nm - 1))))
            d['mu'] = [0.0] + inner + [1.0]
            d['poles'] = draw(st.sampled_from([[], [0], [0, 2], [0, 2, 4], [1, 3], [0, 2, 4, 6, 8, 10]]))
    elif k == 'interp':
        d['n'] = draw(st.integers(2, 40))
        d['a'] = draw(st.sampled_from([0.0, 0.01, 1.0, -3.0, 1e-3]))
        d['w'] = draw(st.sampled_from([1.0, 0.37, 10.0, 1e-2, 3.3333333]))
        d['dt'] = draw(st.sampled_from(['f4', 'f8']))
        d['where'] = draw(st.sampled_from(['end', 'end', 'start', 'node', 'inside', 'outside']))
        d['node'] = draw(st.integers(0, 40))
        d['ulp'] = draw(st.integers(-3, 3))
        d['frac'] = draw(st.floats(0, 1))
        d['mode'] = draw(st.sampled_from(['direct', 'direct', 'expand']))
        d['n1d'] = draw(st.integers(1, 7))
        d['poles'] = draw(st.sampled_from([[0], [0, 2], [0, 2, 4]]))
        d['kmax_rel'] = draw(st.sampled_from([0.3, 0.9, 1.0, 1.0000001, 2.0]))
    elif k == 'mesh':
        d['n'] = draw(st.integers(1, 9))
        d['which'] = draw(st.sampled_from(['smoothing', 'delta_mu2', 'shift', 'normalize', 'raw_power', 'zeros', 'wrap']))
        d['dt'] = draw(st.sampled_from(['f4', 'f8']))
        d['nthread'] = draw(st.sampled_from([1, 2, 4]))
        d['seed'] = draw(st.integers(0, 2**31 - 1))
    elif k == 'tsc_cfg':
        g = draw(st.integers(3, 30))
        d['shape'] = [g if c == 0 else draw(st.integers(3, 6)) for c in range(3)]
        d['coord'] = draw(st.integers(0, 2))
        d['nthread'] = draw(st.sampled_from([1, 1, 1, 2, 4]))
        d['npartition'] = draw(st.one_of(st.none(), st.integers(1, g + 2)))
        d['npts'] = draw(st.sampled_from([0, 1, 2, 5, 30]))
        d['seed'] = draw(st.integers(0, 2**31 - 1))
        d['sort'] = draw(st.booleans())
        d['weights'] = draw(st.booleans())
        d['offhalf'] = draw(st.booleans())
        d['dt'] = draw(st.sampled_from(['f4', 'f8']))
        d['edgepts'] = draw(st.booleans())
    elif k == 'cic_flat':
        d['shape'] = [draw(st.integers(2, 6)), draw(st.integers(2, 6)), draw(st.sampled_from([1, 1, 2, 3]))]  # x,y axes >= 2 cells; z may be one cell thick (the documented 2-D case)
        d['npts'] = draw(st.sampled_from([0, 1, 3, 20]))
        d['seed'] = draw(st.integers(0, 2**31 - 1))
        d['weights'] = draw(st.booleans())
        d['edgepts'] = draw(st.booleans())
    elif k == 'concat':
        d['n1'] = draw(st.integers(0, 40))
        d['n2'] = draw(st.integers(0, 40))
        d['t'] = draw(st.integers(1, 4))
    elif k == 'sphere':
        d['npoints'] = draw(st.sampled_from([0, 1, 2, 3, 4, 5, 17, 100]))
        d['t'] = draw(st.integers(1, 4))
    return d


EXHAUSTIVE_NOTE = 'expand_poles_to_3d for every mesh size 1..8 with the last multipole node on / just below / just above every attainable |k|^2 shell; HOD passes as Python twins for every host-table size 0..13 (thorough 0..39) x particle-table size {0,1,5} x thread count 1..4; bin_kmu/bin_kppi for every mesh size 1..9 x 5 edge placements x Fourier/configuration space; TSC/CIC with particles on every face/edge/corner combination of 8 anisotropic grids; cumsum for every length 0..2 x flag combination x dtype pairing; linear_interp boundary sweep: every table length 2..40 x 5 origins x 5 widths x float32/float64 x xd at both ends and every node, each -3..+3 ulp (enumerated completely; the other kernel groups are sampled)'


def _hod_small(H, P, nthread, three=False):
    lrg = dict(logM_cut=12.5, logM1=13.5, sigma=0.5, alpha=1.0, kappa=0.5, ic=1.0, alpha_c=0.0, alpha_s=1.0)
    elg = dict(p_max=0.5, Q=100.0, logM_cut=11.8, kappa=1.0, sigma=0.5, logM1=13.0, alpha=1.0, gamma=1.0, A_s=1.0, ic=1.0, alpha_c=0.0, alpha_s=1.0)
    if three:
        # low thresholds, weights up to 1: many satellites of each tracer in a table of 4 particles per host
        lrg = dict(lrg, logM_cut=11.5, logM1=11.8, kappa=0.1)
        elg = dict(elg, logM_cut=11.2, logM1=11.8, kappa=0.1)
        qso = dict(logM_cut=11.5, kappa=0.1, sigma=0.5, logM1=11.8, alpha=1.0, ic=1.0, alpha_c=0.0, alpha_s=1.0)
        return dict(H=H, P=P, seed=2000 + H, L=2000.0, velz2kms=150.0, logm_lo=12.0, logm_hi=14.0, wmax=1.0, tracers=['LRG', 'ELG', 'QSO'], hod={'LRG': lrg, 'ELG': elg, 'QSO': qso},
                    multis='one', rsd=bool(H % 2), origin=None, enable_ranks=False, nthread=nthread, overrides=[])
    return dict(H=H, P=P, seed=1000 + 7 * H + P, L=2000.0, velz2kms=150.0, logm_lo=11.0, logm_hi=15.0, wmax=0.6, tracers=['LRG', 'ELG'], hod={'LRG': lrg, 'ELG': elg},
                multis='one', rsd=bool(H % 2), origin=None, enable_ranks=False, nthread=nthread, overrides=[])


def exhaustive(tier, shard, nshards):
    if os.environ.get('VERIF_SHARD') is not None and _plan_for_shard() == ('hod', True):
        # the HOD passes as Python twins: every small host/particle table size against every thread count available here
        # (more threads than hosts, ragged thread blocks, empty tables)
        for H in range(0, 14 if tier == 'quick' else 40):
            for P in (0, 1, 5) if tier == 'quick' else (0, 1, 2, 5, 17):
                for nthread in (1, 2, 3, 4):
                    yield {'g': 'hod', 'd': _hod_small(H, P, nthread), 'twin': True}
        # all three tracers with generous occupations, so that every per-tracer output array and fill offset is exercised in every
        # thread block
        for H in range(1, 10 if tier == 'quick' else 30):
            for nthread in (2, 3, 4):
                yield {'g': 'hod', 'd': _hod_small(H, 4 * H, nthread, three=True), 'twin': True}
    k = 0
    for dt in ('f4', 'f8'):
        for n in range(2, 41):
            k += 1
            if k % nshards != shard:
                continue
            yield {'g': 'extra', 'd': {'k': 'interp_sweep', 'dt': dt, 'n': n}}
    # mode binning: every mesh size 1..9 x edge placement x Fourier/configuration space (deterministic boundary sweep)
    for n in range(1, 10):
        corner = (3 ** 0.5) * n / 2 + 1
        for ekind, (lo, hi) in (('all-below-first', (corner + 1, corner + 5)), ('all-beyond-last', (0.0, 0.4)), ('wide', (0.0, corner + 2)), ('to-nyquist', (0.0, n / 2.0)), ('past-nyquist', (0.25, n / 2.0 + 1.3))):
            for fourier in (True, False):
                k += 1
                if k % nshards != shard:
                    continue
                edges = [lo + (hi - lo) * i / 3 for i in range(4)]
                yield {'g': 'extra', 'd': dict(k='bin_kmu', n=n, L=2 * np.pi, ekind=ekind, edges=edges, nthread=1 + (n % 3), fourier=fourier, seed=n, mu=[0.0, 0.5, 1.0], poles=[0, 2] if n % 2 else [])}
                if n >= 2:
                    yield {'g': 'extra', 'd': dict(k='bin_kppi', n=n, L=2 * np.pi, ekind=ekind, edges=edges, nthread=1 + (n % 3), fourier=fourier, seed=n, pimax_units=[0.4, n / 2.0, n + 1.0][n % 3], npi=2)}
    # expand_poles_to_3d: the last multipole node on, just below and just above every attainable |k|^2 shell (mode units), and beyond the corner
    for n1d in range(1, 9):
        h = n1d // 2
        shells = sorted({a * a + b * b + c * c for a in range(h + 1) for b in range(h + 1) for c in range(h + 1)} | {3 * h * h + 1, 3 * h * h + 5})
        for m in shells:
            for dlt in (0.0, -0.45, 0.45, 1e-6, -1e-6):
                if m + dlt <= 0:
                    continue
                k += 1
                if k % nshards != shard:
                    continue
                yield {'g': 'extra', 'd': dict(k='expand_sweep', n1d=n1d, kmax2=m + dlt, nodes=2 + (m % 4), poles=[[0], [0, 2], [0, 2, 4]][m % 3])}
    # mass assignment: particles on every combination of {0, mid-cell, centre, just below L, L} per axis, anisotropic grids
    for shape in ((4, 6, 3), (3, 5, 4), (6, 3, 5), (5, 4, 6), (3, 3, 3), (7, 4, 4), (4, 7, 3), (3, 4, 8)):
        for kind in ('tsc1', 'tsc2', 'cic'):
            for offhalf in (False, True):
                if kind == 'cic' and offhalf:
                    continue
                k += 1
                if k % nshards != shard:
                    continue
                yield {'g': 'extra', 'd': dict(k='faces', shape=list(shape), kind=kind, offhalf=offhalf)}
    # cumsum: every (length 0..2) x (initial, final) x dtype pairing with a right-length output (cheap, finite)
    for n in (0, 1, 2):
        for initial in (False, True):
            for final in (False, True):
                if n - 1 + initial + final < 0:
                    continue
                for ind in ('int32', 'int64', 'uint32', 'uint64', 'float32', 'float64'):
                    for outd in ('int64', 'uint64', 'float32', 'float64'):
                        k += 1
                        if k % nshards != shard:
                            continue
                        yield {'g': 'cumsum', 'd': dict(n=n, initial=initial, final=final, kind='array', ind=ind, outd=outd, frac=False, vals=[3, 4][:n], offset=0, delta=0)}


def strategy(tier):
    g, twin = _plan_for_shard()
    if g == 'extra':
        return _extra().map(lambda d: {'g': 'extra', 'd': d, 'twin': twin})
    return _mod(REUSED[g]).strategy(tier).map(lambda d: {'g': g, 'd': d, 'twin': twin})


def nontrivial(desc):
    g, d = desc['g'], desc['d']
    if g != 'extra':
        try:
            return bool(_mod(REUSED[g]).nontrivial(d))
        except Exception:
            return False
    k = d['k']
    if k in ('interp_sweep', 'faces', 'expand_sweep'):
        return True
    if k in ('bin_kppi', 'bin_kmu'):
        return d['ekind'] != 'inside' or d['n'] <= 2 or (k == 'bin_kppi' and d['pimax_units'] < d['n'] / 2)
    if k == 'interp':
        return d['where'] in ('end', 'start', 'outside') or d['n'] == 2
    if k == 'mesh':
        return d['n'] <= 2
    if k == 'tsc_cfg':
        return d['npts'] <= 1 or (d['npartition'] or 0) % 2 == 1 or d['edgepts']
    if k == 'cic_flat':
        return d['shape'][2] == 1 or d['npts'] <= 1
    if k == 'concat':
        return d['n1'] == 0 or d['n2'] == 0 or d['n1'] + d['n2'] < d['t']
    if k == 'sphere':
        return d['npoints'] < d['t'] or d['npoints'] == 0
    return False


def classes(desc):
    g, d = desc['g'], desc['d']
    tw = ':python-twin' if desc.get('twin') else ''
    if g != 'extra':
        return ['group=' + g + tw]
    return ['group=extra:' + d['k'] + tw]


_stats = {'interp_probes': 0}


def extra_evidence():
    e = dict(_stats)
    if _twins['patched']:
        e['python_twin_kernels'] = ' '.join(sorted(set(_twins['patched'])))
    return e


def _bounds(exc_or_sig):
    s = str(exc_or_sig)
    return any(m in s for m in BOUNDS_MARKERS)


def _guard(name, fn, *a, **kw):
    """call a kernel; a bounds error is the violation, nothing else is judged here"""
    try:
        with warnings.catch_warnings():
            warnings.simplefilter('ignore')
            return fn(*a, **kw)
    except (IndexError, SystemError) as e:
        raise Violation('oob:' + name, '%s raised %s under NUMBA_BOUNDSCHECK=1%s: %s' % (name, type(e).__name__, ' (parallel kernels as Python twins)' if _twins['on'] else '', str(e)[:300]))
    except Exception:
        if _twins['on']:
            # plain-Python execution of numba source can fail for reasons that have nothing to do with indexing (e.g. range() of a
            # float that numba would have typed as an integer): not judged
            _stats['python_twin_artefacts'] = _stats.get('python_twin_artefacts', 0) + 1
            return None
        raise


def run_case(desc):
    import numba

    if not numba.config.BOUNDSCHECK:
        raise RuntimeError('C11 worker must run with NUMBA_BOUNDSCHECK=1')
    g, d = desc['g'], desc['d']
    if desc['twin'] if 'twin' in desc else (os.environ.get('VERIF_SHARD') is not None and _plan_for_shard()[1]):
        _enable_twins()
    if g != 'extra':
        m = _mod(REUSED[g])
        nmax = int(numba.config.NUMBA_NUM_THREADS)
        for key in ('nthread', 'nthread2'):
            if isinstance(d.get(key), int) and d[key] > nmax:
                # the reused generators draw thread counts up to 16; this worker has fewer numba threads and the package would refuse
                # the call before any kernel runs (the case would then exercise nothing). Use the largest count available here: more
                # threads than rows and ragged blocks are still reached with the small tables those generators produce.
                d = dict(d, **{key: nmax})
        if _twins['on'] and d.get('big'):
            raise Reject('large block: too slow for the Python twins')
        try:
            m.run_case(d)
        except Reject:
            raise
        except Violation as v:
            if _bounds(v.signature) or _bounds(v.detail[:200]):
                raise Violation('oob:%s:%s' % (g, v.signature.split(':')[-1] if v.signature.startswith('raised:') else v.signature), v.detail)
            return {'classes': ['foreign-oracle-violation-ignored']}
        except (IndexError, SystemError) as e:
            import traceback

            tb = traceback.extract_tb(e.__traceback__)
            harness_only = all(('/vt/' in f.filename and 'abacusnbody' not in f.filename) for f in tb[1:]) and 'numba' not in str(type(e))
            raise Violation('oob:%s:%s' % (g, type(e).__name__), '%s in group %s: %s' % (type(e).__name__, g, str(e)[:300]))
        return None
    return _run_extra(d)


def _run_extra(d):
    k = d['k']
    if k in ('bin_kppi', 'bin_kmu'):
        from abacusnbody.analysis import power_spectrum as ps

        n, L = d['n'], d['L']
        rng = np.random.Generator(np.random.PCG64(d['seed']))
        fourier = d['fourier']
        dk = 2 * np.pi / L if fourier else L / n
        shape = (n, n, n // 2 + 1) if fourier else (n, n, n)
        w = rng.uniform(0, 1, size=shape).astype(np.float32)
        edges = np.array(d['edges'], dtype=np.float64) * dk
        if k == 'bin_kppi':
            _guard('bin_kppi', ps.bin_kppi, n, L, edges, float(d['pimax_units'] * dk), int(d['npi']), w, fourier=fourier, nthread=d['nthread'])
        else:
            _guard('bin_kmu', ps.bin_kmu, n, L, edges, np.array(d['mu'], dtype=np.float64), w, poles=np.array(d['poles'], dtype=np.int64), fourier=fourier, nthread=d['nthread'])
        return None
    if k == 'expand_sweep':
        from abacusnbody.analysis import power_spectrum as ps

        n1d = d['n1d']
        k_ell = np.linspace(0.0, float(np.sqrt(d['kmax2'])), int(d['nodes']))
        P_ell = np.vstack([np.arange(len(k_ell)) * 1.5 + 2 + i for i in range(len(d['poles']))]).astype(np.float64)
        _guard('expand_poles_to_3d', ps.expand_poles_to_3d, k_ell, P_ell, n1d, 2 * np.pi, np.array(d['poles'], dtype=np.int64))
        return None
    if k == 'interp':
        from abacusnbody.analysis import power_spectrum as ps

        dt = np.float32 if d['dt'] == 'f4' else np.float64
        n = d['n']
        x = np.linspace(d['a'], d['a'] + d['w'], n).astype(dt)
        y = (np.arange(n) * 1.5 + 2).astype(dt)
        if d['mode'] == 'direct':
            if d['where'] == 'end':
                xd = x[-1]
            elif d['where'] == 'start':
                xd = x[0]
            elif d['where'] == 'node':
                xd = x[d['node'] % n]
            elif d['where'] == 'outside':
                xd = dt(d['a'] - 1 if d['frac'] < 0.5 else d['a'] + d['w'] + 1)
            else:
                xd = dt(d['a'] + d['frac'] * d['w'])
            for _ in range(abs(d['ulp'])):
                xd = np.nextafter(xd, dt(np.inf) if d['ulp'] > 0 else dt(-np.inf))
            got = _guard('linear_interp', ps.linear_interp, dt(xd), x, y)
        else:
            n1d = d['n1d']
            L = 2 * np.pi  # dk = 1: |k| in integer-mode units
            kmaxmesh = (3 ** 0.5) * (n1d // 2 + 1)
            k_ell = np.linspace(0.0, max(kmaxmesh * d['kmax_rel'], 1e-3), n)
            P_ell = np.vstack([y.astype(np.float64) + i for i in range(len(d['poles']))])
            _guard('expand_poles_to_3d', ps.expand_poles_to_3d, k_ell, P_ell, n1d, L, np.array(d['poles'], dtype=np.int64))
        return None
    if k == 'faces':
        import itertools

        from abacusnbody.analysis import tsc
        from abacusnbody.analysis.cic import cic_serial

        box = 60.0
        shape = tuple(d['shape'])
        tscmode = d['kind'].startswith('tsc')
        per_axis = []
        for g in shape:
            h = box / g
            vals = [0.0, 0.5 * h, box / 2, float(np.nextafter(np.float32(box), np.float32(0)))]
            if tscmode:
                vals.append(box)  # the value BoxSize itself (in-place wrapping can produce it)
            per_axis.append(vals)
        pos = np.array(list(itertools.product(*per_axis)), dtype=np.float32)
        grid = np.zeros(shape, dtype=np.float32)
        if tscmode:
            off = 0.5 * box / max(shape) if d['offhalf'] else 0.0
            for wrap in (True, False):
                _guard('tsc_parallel', tsc.tsc_parallel, pos.copy(), grid, box, nthread=int(d['kind'][-1]), wrap=wrap, offset=off)
            # the grid given as a shape tuple: allocated (and zeroed in parallel) by the package
            _guard('tsc_parallel', tsc.tsc_parallel, pos.copy(), shape, box, nthread=int(d['kind'][-1]), wrap=True, offset=off)
        else:
            _guard('cic_serial', cic_serial, pos.copy(), grid, box)
        return None
    if k == 'interp_sweep':
        from abacusnbody.analysis import power_spectrum as ps

        dt = np.float32 if d['dt'] == 'f4' else np.float64
        n = d['n']
        for a in (0.0, 0.01, 1.0, -3.0, 1e-3):
            for w in (1.0, 0.37, 10.0, 1e-2, 3.3333333):
                x = np.linspace(a, a + w, n).astype(dt)
                y = (np.arange(n) * 1.5 + 2).astype(dt)
                for node in sorted({0, 1, n // 2, n - 2, n - 1}):
                    for u in range(-3, 4):
                        xd = x[node]
                        for _ in range(abs(u)):
                            xd = np.nextafter(xd, dt(np.inf) if u > 0 else dt(-np.inf))
                        got = _guard('linear_interp', ps.linear_interp, dt(xd), x, y)
                        _stats['interp_probes'] += 1
        return None
    if k == 'mesh':
        from abacusnbody.analysis import power_spectrum as ps
        from abacusnbody.analysis import tsc

        n = d['n']
        dtf = np.float32 if d['dt'] == 'f4' else np.float64
        dtc = np.complex64 if d['dt'] == 'f4' else np.complex128
        rng = np.random.Generator(np.random.PCG64(d['seed']))
        numba_threads = d['nthread']
        import numba

        numba.set_num_threads(numba_threads)
        w = d['which']
        if w == 'smoothing':
            _guard('get_smoothing', ps.get_smoothing, n, 100.0, 3.0, dtype=dtf)
        elif w == 'delta_mu2':
            f = (rng.normal(size=(n, n, n // 2 + 1)) + 1j * rng.normal(size=(n, n, n // 2 + 1))).astype(dtc)
            _guard('get_delta_mu2', ps.get_delta_mu2, f, n, dtype_c=dtc, dtype_f=dtf)
        elif w == 'shift':
            f = (rng.normal(size=(n, n, n // 2 + 1)) + 1j * rng.normal(size=(n, n, n // 2 + 1))).astype(dtc)
            _guard('shift_field_fft', ps.shift_field_fft, f.copy(), f.copy(), n, 100.0, 100.0 / n, dtype=dtf)
        elif w == 'normalize':
            f = rng.uniform(0.5, 2, size=(n, n, n)).astype(dtf)
            _guard('normalize_field', ps.normalize_field, f, inplace=bool(d['seed'] % 2), nthread=numba_threads)
            _guard('_normalize', ps._normalize, f.copy(), dtf(0.5), nthread=numba_threads)
        elif w == 'raw_power':
            f = (rng.normal(size=(n, n, n // 2 + 1)) + 1j * rng.normal(size=(n, n, n // 2 + 1))).astype(dtc)
            _guard('get_raw_power', ps.get_raw_power, f)
            _guard('get_raw_power', ps.get_raw_power, f, f.copy())
        elif w == 'zeros':
            _guard('_zeros_parallel', tsc._zeros_parallel, (n, max(1, n - 1), n))
        else:
            p = rng.uniform(-1, 2, size=(n * 3, 3)).astype(dtf) * dtf(10.0)
            _guard('_wrap_inplace', tsc._wrap_inplace, p, 10.0)
        numba.set_num_threads(4)
        return None
    if k == 'tsc_cfg':
        from abacusnbody.analysis import tsc

        dt = np.float32 if d['dt'] == 'f4' else np.float64
        rng = np.random.Generator(np.random.PCG64(d['seed']))
        shape = tuple(d['shape'][i] for i in range(3))
        # the generated long axis is `coord`
        shp = list(shape)
        shp[0], shp[d['coord']] = shp[d['coord']], shp[0]
        shape = tuple(shp)
        box = 50.0
        n = d['npts']
        pos = rng.uniform(0, box, size=(n, 3)).astype(dt)
        if d['edgepts'] and n:
            pos[0, :] = 0
            pos[-1, :] = dt(box)
            if n > 2:
                pos[1, :] = np.nextafter(dt(box), dt(0))
        w = rng.uniform(0, 1, size=n).astype(dt) if d['weights'] else None
        off = 0.5 * box / max(shape) if d['offhalf'] else 0.0
        grid = np.zeros(shape, dtype=np.float32)
        try:
            _guard('tsc_parallel', tsc.tsc_parallel, pos, grid, box, weights=w, nthread=d['nthread'], npartition=d['npartition'], sort=d['sort'], coord=d['coord'], offset=off)
        except ValueError:
            return {'classes': ['tsc-config-rejected']}
        return {'classes': ['tsc-config-accepted', 'odd-npartition' if (d['npartition'] or 0) % 2 else 'even-or-default']}
    if k == 'cic_flat':
        from abacusnbody.analysis.cic import cic_serial

        rng = np.random.Generator(np.random.PCG64(d['seed']))
        box = 20.0
        n = d['npts']
        pos = rng.uniform(0, box, size=(n, 3)).astype(np.float32)
        if d['edgepts'] and n:
            pos[0, :] = 0
            pos[-1, :] = np.nextafter(np.float32(box), np.float32(0))
        w = rng.uniform(0, 1, size=n).astype(np.float32) if d['weights'] else None
        grid = np.zeros(tuple(d['shape']), dtype=np.float32)
        _guard('cic_serial', cic_serial, pos, grid, box, weights=w)
        return None
    if k == 'concat':
        from abacusnbody.hod.GRAND_HOD import fast_concatenate

        a = np.arange(d['n1'], dtype=np.float64)
        b = np.arange(d['n2'], dtype=np.float64)
        _guard('fast_concatenate', fast_concatenate, a, b, d['t'])
        return None
    if k == 'sphere':
        from abacusnbody.hod.GRAND_HOD import getPointsOnSphere

        try:
            _guard('getPointsOnSphere', getPointsOnSphere, d['npoints'], d['t'], np.arange(d['t'], dtype=np.int64) + 5)
        except Violation:
            raise
        except Exception as e:
            if 'Typing' in type(e).__name__ or 'Lowering' in type(e).__name__ or 'Unsupported' in type(e).__name__:
                return {'classes': ['getPointsOnSphere-does-not-compile'], 'nontrivial': False}
            raise
        return None
    raise Reject('unknown extra kernel ' + str(k))
