"""C10 — the galaxy catalogue is identical for every thread count.

Oracle: bitwise equality of every column, row order and Ncent with the Nthread=1 result for every thread count 1..16,
plus "every row written exactly once": the Nthread=1 output is explained row by row by the C09 model (so a stale
np.empty row cannot pass by two thread counts agreeing by accident).  fast_concatenate and _searchsorted_parallel are
additionally enumerated in isolation against numpy for all (N1, N2 <= 40, t <= 16).
"""
import numpy as np
from hypothesis import strategies as st

from vt.core import Violation, call_repo
from vt.oracles import hodmodel as HM
from vt.props import c09

ID = 'C10'
RULE = (
    'descriptor = HOD tables as in C09 but with sizes chosen against the block arithmetic (H, P in {0,1,2,...,40} u {k*t+-1}) and all thread counts 1..16 per case '
    '(incl. more threads than hosts, empty tables); enumerated: fast_concatenate / _searchsorted_parallel for all N1,N2<=40 (quick 16), t<=16. '
    'non-trivial = some thread count does not divide H or P or exceeds them, and >=1 galaxy; distinct = descriptor hash.'
)
ASSUMPTIONS = list(c09.ASSUMPTIONS) + ['thread counts are set through the Nthread argument (numba.set_num_threads inside the kernels); NUMBA_NUM_THREADS=16']
EXHAUSTIVE_NOTE = {
    'quick': 'fast_concatenate(N1,N2,t) and _searchsorted_parallel for all N1,N2 in 0..16, t in {1,2,3,5,8,16} vs numpy.concatenate / numpy.searchsorted',
    'thorough': 'fast_concatenate(N1,N2,t) and _searchsorted_parallel for all N1,N2 in 0..40, t in 1..16 vs numpy.concatenate / numpy.searchsorted',
}


def config(tier):
    if tier == 'quick':
        return dict(shards=4, examples=60, numba_threads=16, soft_s=200, shrink_calls=40, shrink_max_sigs=1)
    return dict(shards=8, examples=700, numba_threads=16, soft_s=1400, shrink_calls=150)


@st.composite
def _sizes(draw):
    t = draw(st.integers(1, 16))
    k = draw(st.integers(0, 3))
    cand = st.one_of(st.integers(0, 40), st.sampled_from([0, 1, 2, max(0, k * t - 1), k * t, k * t + 1, t - 1 if t > 1 else 0, t + 1]))
    return draw(cand), draw(cand) * draw(st.sampled_from([1, 1, 3]))


def strategy(tier):
    return c09.desc_strategy(tier, sizes=_sizes())


def nontrivial(d):
    if d.get('mode'):
        return True
    H, P = d['H'], d['P']
    return any((H % t or P % t or t > H or t > P) for t in range(2, 17)) and (H > 0)


def classes(d):
    if d.get('mode'):
        return ['enumerated:' + d['mode']]
    c = c09.classes(d)
    c.append('H<16' if d['H'] < 16 else 'H>=16')
    c.append('P<16' if d['P'] < 16 else 'P>=16')
    return c


def exhaustive(tier, shard, nshards):
    nmax = 16 if tier == 'quick' else 40
    k = 0
    for n1 in range(0, nmax + 1):
        k += 1
        if k % nshards != shard:
            continue
        yield {'mode': 'concat', 'n1': n1, 'nmax': nmax, 'ts': [1, 2, 3, 5, 8, 16] if tier == 'quick' else list(range(1, 17))}
    for n1 in range(0, nmax + 1, 4):
        k += 1
        if k % nshards != shard:
            continue
        yield {'mode': 'search', 'n1': n1, 'nmax': nmax}


_stats = {'helper_calls': 0}


def extra_evidence():
    return dict(_stats)


def _run_helpers(d):
    from abacusnbody.hod.GRAND_HOD import fast_concatenate

    n1, nmax = d['n1'], d['nmax']
    if d['mode'] == 'concat':
        for n2 in range(0, nmax + 1):
            for dt in (np.float64, np.int64):
                a = (np.arange(n1) * 3 + 1).astype(dt)
                b = (-(np.arange(n2) * 5) - 2).astype(dt)
                want = np.concatenate([a, b])
                for t in d.get('ts', range(1, 17)):
                    got = call_repo(fast_concatenate, a.copy(), b.copy(), t)
                    _stats['helper_calls'] += 1
                    if got.shape != want.shape or not np.array_equal(got, want):
                        raise Violation('fast_concatenate-wrong', 'N1=%d N2=%d Nthread=%d dtype=%s: got %s want %s' % (n1, n2, t, dt.__name__, got[:12], want[:12]))
    else:
        import numba

        from abacusnbody.hod.abacus_hod import _searchsorted_parallel

        a = np.sort((np.arange(n1) * 7 + 3).astype(np.int64))
        for n2 in range(0, nmax + 1):
            if n1 == 0:
                b = np.zeros(0, np.int64)
            elif n2 % 2:
                b = a[(np.arange(n2) * 5) % n1]
            else:
                b = np.sort(a[(np.arange(n2) // 3) % n1])  # sorted with runs of equal host ids, as particle tables are
            want = np.searchsorted(a, b)
            for t in (1, 2, 3, 5, 16):
                numba.set_num_threads(t)
                got = call_repo(_searchsorted_parallel, a, b)
                _stats['helper_calls'] += 1
                if not np.array_equal(got, want):
                    numba.set_num_threads(16)
                    raise Violation('searchsorted_parallel-wrong', 'len(a)=%d len(b)=%d threads=%d' % (n1, len(b), t))
        numba.set_num_threads(16)
    return None


def run_case(d):
    if d.get('mode'):
        return _run_helpers(d)
    hd, pd_, tracers, params = c09.prepare(d)
    base = c09.run_gen(hd, pd_, tracers, params, 1, d['enable_ranks'], d['rsd'])
    nc, ns = c09.check_against_model(d, hd, pd_, tracers, params, base)
    for t in range(2, 17):
        out = c09.run_gen(hd, pd_, tracers, params, t, d['enable_ranks'], d['rsd'])
        for T in tracers:
            a, b = base[T], out[T]
            if sorted(a) != sorted(b):
                raise Violation('threads-change-columns', 'tracer %s: column set differs at Nthread=%d' % (T, t))
            for k in a:
                if k == 'Ncent':
                    if a[k] != b[k]:
                        raise Violation('threads-change-catalogue', 'tracer %s: Ncent %d at Nthread=1, %d at Nthread=%d (H=%d, P=%d)' % (T, a[k], b[k], t, d['H'], d['P']))
                elif a[k].shape != b[k].shape or a[k].dtype != b[k].dtype or a[k].tobytes() != b[k].tobytes():
                    raise Violation('threads-change-catalogue', 'tracer %s column %s differs between Nthread=1 and Nthread=%d (H=%d, P=%d): lengths %d vs %d' % (T, k, t, d['H'], d['P'], len(a[k]), len(b[k])))
    cls = ['galaxies>0'] if nc + ns else ['no-galaxies']
    return {'classes': cls, 'nontrivial': nontrivial(d) and (nc + ns) > 0}
