"""C20 — pipe_asdf emits count, width and the concatenated raw bytes per field.

Generator: 1..4 ASDF files on disk (argument order deliberately not lexicographic,
optionally one file named twice) x 1..5 columns of dtype {u1,i2,u2,i4,u4,f4,f8,i8,u8}
and shape (n,), (n,1), (n,3), (n,4), (n,2,2), (n,3,3) with n >= 0 (same dtype/trailing
shape across files, independent n per file and column, n=0 drawn often, occasionally a
few thousand rows so that reads span several 4096-byte chunks) x per-file compression
{none, zlib, bzp2, blsc} x per-file key order in the YAML tree x requested field list
(any order, subsets, occasionally a repeated field) x fault variants (a missing file at
any argument position; a field that no file has at any request position; a field that
one particular file lacks) x sink (BytesIO that keeps its value on close, a real
buffered file object, a real os.pipe with a reader thread) x route (in-process
`unpack_to_pipe`, or the real CLI `python -m abacusnbody.data.pipe_asdf ... > file`).

Oracle: the expected byte string is built from the *descriptor's arrays* (never read
back from the files):  int64(sum of element counts) || int32(itemsize) ||
concat(arr.tobytes() over the files in argument order)  per field in request order.
Exact equality.  Fault variants: an error must be reported (exception / non-zero exit
status) and zero bytes may have reached the sink.
"""
import gc
import io
import os
import struct
import subprocess
import threading

import numpy as np
from hypothesis import strategies as st

from vt import env
from vt.core import Reject, Violation, call_repo
from vt.gen import asdf_files

ID = 'C20'
RULE = (
    'Hypothesis descriptors (files x columns x per-file lengths/compression/key order x argument order x request list x fault x sink x route); '
    'non-trivial = (>=2 file arguments and >=2 requested fields) or a requested multi-dimensional column or a requested column that is empty in some file; '
    'distinct = descriptor hash.'
)
ASSUMPTIONS = [
    'blosc is the zlib-behind-a-16-byte-header stand-in (/verif/shims/blosc.py); blsc fixtures are written through the repository compressor with the asdf-5.4 ndarray->memoryview adaptor (writing only)',
    'asdf (third party) writes the binary block of a C-contiguous array as arr.tobytes(); the expected stream is built from the descriptor arrays, not from the files',
    'native little-endian dtypes only; columns are >=1-dimensional arrays',
    'CLI samples run `python -m abacusnbody.data.pipe_asdf` with PYTHONPATH=[repo, verif, shims]; the blsc extension is found through the entry point in <repo>/abacusutils.egg-info (fallback: explicit registration wrapper when that directory is absent)',
    'any exception type / any non-zero exit status counts as "reported as an error"',
]

DTYPES = ['u1', 'i2', 'u2', 'i4', 'u4', 'f4', 'f8', 'i8', 'u8']
TAILS = [[], [], [], [3], [3], [2, 2], [1], [4], [3, 3]]
NAMES = ['pos', 'vel', 'rvint', 'packedpid', 'pid', 'N', 'id', 'x_L2com', 'r100_L2com', 'sigmav3d_L2com', 'npstartA', 'aux', 'density', 'f0', 'f1', 'SO_central_particle']
COMPS = ['none', 'none', 'zlib', 'bzp2', 'blsc', 'blsc']
SINKS = ['bytesio', 'bytesio', 'file', 'ospipe']
CLI_TIMEOUT = 300

_stats = {'cli_runs': 0, 'cli_module_route': 0, 'cli_wrapper_route': 0, 'payload_bytes_checked': 0, 'fixture_files_written': 0, 'sink_closed_by_callee': 0}


def config(tier):
    if tier == 'quick':
        return dict(shards=16, examples=40, numba_threads=1, boundscheck=False, soft_s=150, shrink_calls=60)
    return dict(shards=16, examples=500, numba_threads=1, boundscheck=False, soft_s=800, shrink_calls=200)


def setup(tier):
    env.register_asdf()


# --------------------------------------------------------------------------- strategy


def _n_strategy():
    # mostly small; occasionally a column of more than 1 MiB in one file (writers that split large arrays into pieces)
    return st.one_of(st.sampled_from([0, 0, 0, 1, 1, 2, 3]), st.integers(0, 40), st.integers(0, 40), st.integers(0, 40), st.integers(41, 3000),
                     st.sampled_from([0, 1, 5, 30, 90000, 140001]))


@st.composite
def _desc(draw, cli_one_in):
    nfields = draw(st.sampled_from([1, 2, 2, 3, 3, 4, 5]))
    names = draw(st.lists(st.sampled_from(NAMES), min_size=nfields, max_size=nfields, unique=True))
    fields = [dict(name=nm, dtype=draw(st.sampled_from(DTYPES)), tail=draw(st.sampled_from(TAILS))) for nm in names]
    nfiles = draw(st.sampled_from([1, 2, 2, 3, 3, 4]))
    stems = draw(st.lists(st.integers(0, 99), min_size=nfiles, max_size=nfiles, unique=True))
    files = []
    for k in range(nfiles):
        files.append(
            dict(
                stem='part_%02d' % stems[k],
                comp=draw(st.sampled_from(COMPS)),
                n=[draw(_n_strategy()) for _ in range(nfields)],
                order=draw(st.permutations(list(range(nfields)))),
            )
        )
    args = list(range(nfiles))
    if draw(st.sampled_from([0] * 9 + [1])):
        args.insert(draw(st.integers(0, nfiles)), draw(st.integers(0, nfiles - 1)))  # the same file named twice
    if nfiles > 1 and draw(st.sampled_from([0] * 5 + [1])):
        args = args[: draw(st.integers(1, len(args)))]  # a file on disk that is not passed
    request = draw(st.lists(st.integers(0, nfields - 1), min_size=1, max_size=nfields, unique=True))
    if draw(st.sampled_from([0, 0, 1])):
        request = draw(st.permutations(list(range(nfields))))  # everything, any order
    if draw(st.sampled_from([0] * 11 + [1])):
        request.insert(draw(st.integers(0, len(request))), draw(st.sampled_from(request)))  # a repeated field
    fk = draw(st.sampled_from(['none'] * 7 + ['file', 'field-absent', 'field-dropped', 'field-dropped']))
    fault = None
    if fk == 'file':
        # boundary positions on purpose: first / last argument
        where = draw(st.sampled_from(['last', 'first', 'any', 'last']))
        fault = dict(kind='file', argpos={'first': 0, 'last': len(args)}.get(where, draw(st.integers(0, len(args)))))
    elif fk == 'field-absent':
        where = draw(st.sampled_from(['last', 'first', 'any', 'last']))
        fault = dict(kind='field-absent', reqpos={'first': 0, 'last': len(request)}.get(where, draw(st.integers(0, len(request)))))
    elif fk == 'field-dropped':
        wa = draw(st.sampled_from(['last', 'first', 'any', 'last']))
        wr = draw(st.sampled_from(['last', 'first', 'any', 'last']))
        fault = dict(
            kind='field-dropped',
            argpos={'first': 0, 'last': len(args) - 1}.get(wa, draw(st.integers(0, len(args) - 1))),
            reqpos={'first': 0, 'last': len(request) - 1}.get(wr, draw(st.integers(0, len(request) - 1))),
        )
    route = draw(st.sampled_from(['inproc'] * (cli_one_in - 1) + ['cli']))
    d = dict(
        fields=fields,
        files=files,
        args=args,
        request=list(request),
        fault=fault,
        seed=draw(st.integers(0, 2**32 - 1)),
        route=route,
        sink=draw(st.sampled_from(SINKS)),
        verbose=draw(st.sampled_from([True, True, False])),
        keys=draw(st.sampled_from(['default'] * 5 + ['custom'])),
        nthread=draw(st.sampled_from([4, 1, 2])),
        cli_style=draw(st.integers(0, 3)),
    )
    return d


def strategy(tier):
    return _desc(8 if tier == 'quick' else 16)


# --------------------------------------------------------------------------- descriptor helpers


def _requested_fields(d):
    return [d['fields'][i] for i in d['request']]


def nontrivial(d):
    req = set(d['request'])
    multi = any(len(d['fields'][i]['tail']) > 0 for i in req)
    empty = any(d['files'][a]['n'][i] == 0 for a in d['args'] for i in req)
    return (len(d['args']) >= 2 and len(d['request']) >= 2) or multi or empty


def classes(d):
    req = set(d['request'])
    c = ['route=' + d['route'], 'files=%d' % len(d['args']), 'fields=%d' % len(d['request'])]
    c.append('fault=' + (d['fault']['kind'] if d['fault'] else 'none'))
    if d['route'] == 'inproc':
        c.append('sink=' + d['sink'])
    for cp in sorted(set(d['files'][a]['comp'] for a in d['args'])):
        c.append('comp=' + cp)
    if any(len(d['fields'][i]['tail']) > 0 for i in req):
        c.append('multi-dim column')
    if any(d['files'][a]['n'][i] == 0 for a in d['args'] for i in req):
        c.append('empty column in some file')
    if all(d['files'][a]['n'][i] == 0 for a in d['args'] for i in req):
        c.append('all requested columns empty')
    if any(d['files'][a]['n'][i] > 1024 for a in d['args'] for i in req):
        c.append('column > 1024 rows')
    if any(n > 50000 for f in d['files'] for n in f['n']):
        c.append('column > 1 MiB class (>50000 rows)')
    if len(set(d['args'])) < len(d['args']):
        c.append('same file twice')
    if len(set(d['request'])) < len(d['request']):
        c.append('repeated field')
    stems = [d['files'][a]['stem'] for a in d['args']]
    if stems != sorted(stems):
        c.append('argument order != sorted order')
    if list(d['request']) != sorted(d['request']):
        c.append('request order != column order')
    if len(set(d['files'][a]['comp'] for a in d['args'])) > 1:
        c.append('mixed compression')
    if len(set(d['fields'][i]['dtype'][1:] for i in req)) > 1:
        c.append('mixed widths')
    if d['keys'] == 'custom' and d['route'] == 'inproc':
        c.append('custom data_key')
    f = d['fault']
    if f:
        if f['kind'] == 'file':
            c.append('missing file is %s argument' % ('last' if f['argpos'] % (len(d['args']) + 1) == len(d['args']) else 'first' if f['argpos'] % (len(d['args']) + 1) == 0 else 'a middle'))
        elif f['kind'] == 'field-absent':
            c.append('absent field is %s requested' % ('last' if f['reqpos'] % (len(d['request']) + 1) == len(d['request']) else 'not last'))
        else:
            last = f['argpos'] % len(d['args']) == len(d['args']) - 1 and f['reqpos'] % len(d['request']) == len(d['request']) - 1
            c.append('dropped field: %s' % ('last field of last file' if last else 'elsewhere'))
    return c


def extra_evidence():
    return dict(_stats)


# --------------------------------------------------------------------------- fixture + oracle


def _validate(d):
    try:
        nf = len(d['fields'])
        if not (1 <= nf <= 8 and 1 <= len(d['files']) <= 6 and 1 <= len(d['args']) <= 8 and 1 <= len(d['request']) <= 12):
            raise Reject('descriptor sizes out of range')
        if len(set(f['name'] for f in d['fields'])) != nf:
            raise Reject('duplicate column names')
        if len(set(f['stem'] for f in d['files'])) != len(d['files']):
            raise Reject('duplicate file names')
        for f in d['files']:
            if len(f['n']) != nf or sorted(f['order']) != list(range(nf)):
                raise Reject('per-file lists do not match the columns')
            if any(n < 0 or n > 200000 for n in f['n']):
                raise Reject('length out of range')
        if any(not (0 <= a < len(d['files'])) for a in d['args']) or any(not (0 <= i < nf) for i in d['request']):
            raise Reject('index out of range')
    except (KeyError, TypeError) as e:
        raise Reject('malformed descriptor: %r' % (e,))


def _arrays(d):
    """arrays[file index][field index] -> ndarray, pure function of the descriptor."""
    out = []
    for k, f in enumerate(d['files']):
        row = []
        for i, fld in enumerate(d['fields']):
            shape = tuple([f['n'][i]] + list(fld['tail']))
            seed = (int(d['seed']) * 1000003 + k * 8191 + i * 131 + 17) % (2**63)
            row.append(asdf_files.random_array(seed, shape, '<' + fld['dtype']))
        out.append(row)
    return out


def _expected(d, arrays):
    """[(field name, count, width, payload bytes)] per requested field, in request order."""
    recs = []
    for i in d['request']:
        fld = d['fields'][i]
        width = int(fld['dtype'][1:])
        count = 0
        parts = []
        for a in d['args']:
            arr = arrays[a][i]
            cnt = 1
            for s in arr.shape:
                cnt *= int(s)
            count += cnt
            parts.append(arr.tobytes())
        payload = b''.join(parts)
        assert len(payload) == count * width
        recs.append((fld['name'], count, width, payload))
    return recs


def _stream(recs):
    return b''.join(struct.pack('<q', c) + struct.pack('<i', w) + p for (_n, c, w, p) in recs)


def _compare(got, recs, where):
    """Walk the expected framing; the first deviation names the root cause."""
    pos = 0
    for k, (name, count, width, payload) in enumerate(recs):
        ctx = '%s: field #%d %r' % (where, k, name)
        h = got[pos : pos + 8]
        if h != struct.pack('<q', count):
            g = struct.unpack('<q', h)[0] if len(h) == 8 else None
            raise Violation('pipe-count-wrong', '%s at byte %d: int64 count is %r, expected %d (stream %d bytes, expected %d)' % (ctx, pos, g, count, len(got), len(_stream(recs))))
        h = got[pos + 8 : pos + 12]
        if h != struct.pack('<i', width):
            g = struct.unpack('<i', h)[0] if len(h) == 4 else None
            raise Violation('pipe-width-wrong', '%s at byte %d: int32 width is %r, expected %d' % (ctx, pos + 8, g, width))
        body = got[pos + 12 : pos + 12 + len(payload)]
        if body != payload:
            if len(body) != len(payload):
                raise Violation('pipe-payload-short', '%s: stream ends after %d of %d payload bytes' % (ctx, len(body), len(payload)))
            first = next(j for j in range(len(payload)) if body[j] != payload[j])
            raise Violation('pipe-payload-wrong', '%s: payload differs first at payload byte %d of %d (count=%d width=%d)' % (ctx, first, len(payload), count, width))
        pos += 12 + len(payload)
        _stats['payload_bytes_checked'] += len(payload)
    if len(got) != pos:
        raise Violation('pipe-trailing-bytes', '%s: %d bytes after the last requested field (expected stream is %d bytes)' % (where, len(got) - pos, pos))


class _KeepBytesIO(io.BytesIO):
    """Non-tty in-memory pipe object that keeps what was written after close()."""

    final = None

    def close(self):
        if not self.closed:
            self.final = self.getvalue()
        super().close()

    def value(self):
        return self.final if self.closed else self.getvalue()


class _Sink:
    """One of three non-tty pipe objects; `.collect()` returns every byte handed to write()."""

    def __init__(self, kind, tmp):
        self.kind = kind
        self.thread = None
        if kind == 'bytesio':
            self.obj = _KeepBytesIO()
        elif kind == 'file':
            self.path = os.path.join(tmp, 'sink.bin')
            self.obj = open(self.path, 'wb')
        elif kind == 'ospipe':
            r, w = os.pipe()
            self.obj = os.fdopen(w, 'wb')
            self.chunks = []

            def reader():
                with os.fdopen(r, 'rb') as rf:
                    while True:
                        b = rf.read(65536)
                        if not b:
                            break
                        self.chunks.append(b)

            self.thread = threading.Thread(target=reader, daemon=True)
            self.thread.start()
        else:
            raise Reject('unknown sink')

    def collect(self):
        closed_by_callee = bool(self.obj.closed)
        if self.kind == 'bytesio':
            data = self.obj.value()
            self.obj.close()
        elif self.kind == 'file':
            if not self.obj.closed:
                self.obj.close()
            with open(self.path, 'rb') as f:
                data = f.read()
        else:
            if not self.obj.closed:
                self.obj.close()
            self.thread.join()
            data = b''.join(self.chunks)
        return data, closed_by_callee


def _build(d, tmp, arrays):
    """Write the fixture files; return (argument paths, requested names, data_key, header_key)."""
    f = d['fault']
    custom = d['keys'] == 'custom' and d['route'] == 'inproc'
    data_key, header_key = ('halos', 'hdr') if custom else ('data', 'header')
    req_names = [d['fields'][i]['name'] for i in d['request']]
    drop = {}
    if f and f['kind'] == 'field-dropped':
        a = d['args'][f['argpos'] % len(d['args'])]
        i = d['request'][f['reqpos'] % len(d['request'])]
        drop[a] = i
    paths = {}
    for k, fl in enumerate(d['files']):
        data = {}
        for i in fl['order']:
            if drop.get(k) == i:
                continue
            data[d['fields'][i]['name']] = arrays[k][i]
        header = {'SimName': 'verif_c20', 'FileIndex': k, 'BoxSize': 1000.0}
        p = os.path.join(tmp, fl['stem'] + '.asdf')
        asdf_files.write_asdf(p, header, data, fl['comp'], data_key=data_key, header_key=header_key)
        _stats['fixture_files_written'] += 1
        # harness self-check (not a property verdict): every block carries the compression that was asked for
        want = {'none': b'\0\0\0\0', 'zlib': b'zlib', 'bzp2': b'bzp2', 'blsc': b'blsc'}[fl['comp']]
        labels = asdf_files.block_compressions(p)
        if len(labels) != len(data) or any(lb != want for lb in labels):
            raise RuntimeError('fixture %s: block compressions %r, wanted %d x %r' % (p, labels, len(data), want))
        paths[k] = p
    argpaths = [paths[a] for a in d['args']]
    if f and f['kind'] == 'file':
        argpaths.insert(f['argpos'] % (len(argpaths) + 1), os.path.join(tmp, 'part_missing.asdf'))
    if f and f['kind'] == 'field-absent':
        have = set(x['name'] for x in d['fields'])
        absent = next(nm for nm in ['no_such_field'] + NAMES if nm not in have)
        if f['reqpos'] % 2:
            absent = req_names[0] + '_x'  # a name that extends an existing one
            if absent in have:
                absent = 'no_such_field'
        req_names.insert(f['reqpos'] % (len(req_names) + 1), absent)
    return argpaths, req_names, data_key, header_key


_WRAPPER = (
    'import sys, runpy; from vt import env; env.setup_path(); env.register_asdf(); '
    "runpy.run_module('abacusnbody.data.pipe_asdf', run_name='__main__', alter_sys=True)"
)


def _run_cli(d, tmp, argpaths, req_names):
    e = env.worker_env(numba_threads=1)
    if os.path.isdir(os.path.join(env.REPO, 'abacusutils.egg-info')):
        cmd = [env.PYTHON, '-m', 'abacusnbody.data.pipe_asdf']
        _stats['cli_module_route'] += 1
    else:
        cmd = [env.PYTHON, '-c', _WRAPPER]
        _stats['cli_wrapper_route'] += 1
    style = int(d.get('cli_style', 0))
    fargs = []
    for nm in req_names:
        fargs += ['--field' if style & 1 else '-f', nm]
    files = [os.path.basename(p) for p in argpaths] if style & 2 else list(argpaths)  # relative to cwd / absolute
    if style & 1:
        cmd += files + fargs
    else:
        cmd += fargs + files
    if d.get('nthread', 4) != 4:
        cmd += ['--nthread', str(int(d['nthread']))]
    outp = os.path.join(tmp, 'cli_stdout.bin')
    errp = os.path.join(tmp, 'cli_stderr.txt')
    try:
        if d['sink'] == 'ospipe':
            with open(errp, 'wb') as ef:
                p = subprocess.run(cmd, cwd=tmp, env=e, stdin=subprocess.DEVNULL, stdout=subprocess.PIPE, stderr=ef, timeout=CLI_TIMEOUT)
            got = p.stdout
        else:
            with open(outp, 'wb') as of, open(errp, 'wb') as ef:
                p = subprocess.run(cmd, cwd=tmp, env=e, stdin=subprocess.DEVNULL, stdout=of, stderr=ef, timeout=CLI_TIMEOUT)
            with open(outp, 'rb') as f:
                got = f.read()
    except subprocess.TimeoutExpired:
        raise Reject('cli-timeout (machine load; budget only)')
    _stats['cli_runs'] += 1
    with open(errp, 'rb') as f:
        err = f.read().decode('utf-8', 'replace')
    return p.returncode, got, err, cmd


# --------------------------------------------------------------------------- the check


def run_case(d):
    _validate(d)
    env.register_asdf()
    from abacusnbody.data import pipe_asdf

    arrays = _arrays(d)
    recs = _expected(d, arrays)
    tmp = asdf_files.scratch_dir('c20')
    try:
        argpaths, req_names, data_key, header_key = _build(d, tmp, arrays)
        fault = d['fault']
        if d['route'] == 'cli':
            rc, got, err, cmd = _run_cli(d, tmp, argpaths, req_names)
            where = 'CLI'
            if fault:
                if len(got) != 0:
                    raise Violation('pipe-bytes-before-error', 'CLI, fault=%s: %d bytes on stdout (exit status %d)' % (fault['kind'], len(got), rc))
                if rc == 0:
                    raise Violation('pipe-missing-not-reported', 'CLI, fault=%s: exit status 0' % fault['kind'])
                return None
            if rc != 0:
                raise Violation('raised:cli-nonzero-exit', 'CLI exit status %d on valid input; stderr tail: %s' % (rc, err[-800:]))
            _compare(got, recs, where)
            return None

        sink = _Sink(d['sink'], tmp)
        raised = None
        try:
            kw = dict(pipe=sink.obj, nthread=int(d['nthread']), verbose=bool(d['verbose']))
            if data_key != 'data':
                kw.update(data_key=data_key, header_key=header_key)
            if fault:
                try:
                    pipe_asdf.unpack_to_pipe(argpaths, req_names, **kw)
                except Exception as ex:  # "reported as an error": any exception type is accepted
                    raised = ex
            else:
                call_repo(pipe_asdf.unpack_to_pipe, argpaths, req_names, **kw)
        finally:
            got, closed = sink.collect()
        where = 'unpack_to_pipe(sink=%s)' % d['sink']
        if fault:
            if len(got) != 0:
                raise Violation('pipe-bytes-before-error', '%s, fault=%s: %d bytes were written before the error (%r)' % (where, fault['kind'], len(got), raised))
            if raised is None:
                raise Violation('pipe-missing-not-reported', '%s, fault=%s: no exception' % (where, fault['kind']))
            return None
        if closed:
            _stats['sink_closed_by_callee'] += 1
        _compare(got, recs, where)
        return None
    finally:
        asdf_files.remove_dir(tmp)
        if d.get('fault'):
            gc.collect()  # the error path leaves AsdfFile objects (open descriptors) to the collector
