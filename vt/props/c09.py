"""C09 — galaxies follow the HOD threshold rule and inherit their host.

Oracle: row-by-row HOD model (vt.oracles.hodmodel) compared in output order per tracer, centrals and satellites
separated by Ncent, with hosts on a slice edge optional; plus laws checked directly from the statement:
at most one galaxy per host, nestedness when only `ic` grows, enabling a later tracer leaves earlier tracers unchanged.
"""
import numpy as np
from hypothesis import strategies as st

from vt.core import Violation, call_repo
from vt.oracles import hodmodel as HM

ID = 'C09'
RULE = (
    'descriptor = halo table (H 0..60, masses 1e11..1e15.5, multiplicity 1/ints/fractions, ranks) + particle table (P 0..200) from a seed, with stored randoms overridden '
    'by construction (exactly 0; exactly on a model slice edge; edge +-1e-9) x tracer subset (7 non-empty subsets) x HOD parameters around the shipped defaults incl. '
    'assembly-bias, shear, conformity, rank, velocity-bias terms and ic x RSD x origin None/vector x enable_ranks x Nthread; '
    'non-trivial = (>=2 tracers and >=1 central and >=1 satellite produced) or a random on a slice edge; distinct = descriptor hash.'
)
ASSUMPTIONS = [
    "slice widths come from the package's own scalar mean-occupation functions called one host at a time (the statement defines the rule in terms of them)",
    'hosts whose random is within 1e-12 (relative) of a slice edge are optional (either outcome accepted); float columns compared at rtol 1e-9',
    'HOD parameters keep every slice width non-negative (p_max > 1/Q, rank decorators > 0)',
]


def config(tier):
    if tier == 'quick':
        return dict(shards=4, examples=450, numba_threads=16, soft_s=200, shrink_calls=100)
    return dict(shards=8, examples=6000, numba_threads=16, soft_s=1400, shrink_calls=300)


def _hod_params(draw, T):
    p = {}
    f = lambda a, b: draw(st.floats(a, b))  # noqa: E731
    if T == 'LRG':
        p.update(logM_cut=f(12.0, 13.8), logM1=f(13.0, 14.5), sigma=f(0.1, 0.8), alpha=f(0.5, 1.5), kappa=f(0.0, 1.0))
    elif T == 'ELG':
        p.update(p_max=f(0.05, 0.9), Q=draw(st.sampled_from([100.0, 20.0, 50.0])), logM_cut=f(11.2, 12.5), kappa=f(0.0, 2.0), sigma=f(0.2, 1.0), logM1=f(12.5, 14.0), alpha=f(0.5, 1.3), gamma=f(1.0, 6.0), A_s=f(0.5, 1.5))
        if draw(st.booleans()):
            p.update(logM1_EE=f(12.0, 14.0), alpha_EE=f(0.5, 1.3), logM1_EL=f(12.0, 14.0), alpha_EL=f(0.5, 1.3))
        if draw(st.booleans()):
            p.update(Ccent=f(-0.3, 0.3), Csat=f(-0.3, 0.3))
    else:
        p.update(logM_cut=f(11.8, 13.0), kappa=f(0.0, 2.0), sigma=f(0.2, 1.0), logM1=f(13.0, 14.5), alpha=f(0.3, 1.2))
    p['ic'] = draw(st.sampled_from([1.0, 1.0, 0.97, 0.5, 0.25, 0.0, 0, 1]))  # incl. exactly 0 (a tracer switched off through its incompleteness) and YAML-style ints
    p['alpha_c'] = draw(st.sampled_from([0.0, 0.0, 0.3, 1.0]))
    p['alpha_s'] = draw(st.sampled_from([1.0, 1.0, 0.8, 1.3]))
    if draw(st.booleans()):
        p.update(Acent=f(-0.5, 0.5), Asat=f(-0.5, 0.5), Bcent=f(-0.5, 0.5), Bsat=f(-0.5, 0.5))
    if draw(st.booleans()):
        p.update(s=f(-0.2, 0.2), s_v=f(-0.2, 0.2), s_p=f(-0.2, 0.2), s_r=f(-0.2, 0.2))
    return p


@st.composite
def desc_strategy(draw, tier, sizes=None):
    if sizes is None:
        H = draw(st.one_of(st.integers(0, 8), st.integers(0, 60)))
        P = draw(st.one_of(st.integers(0, 10), st.integers(0, 200)))
    else:
        H, P = draw(sizes)
    tr = draw(st.sampled_from([['LRG'], ['ELG'], ['QSO'], ['LRG', 'ELG'], ['LRG', 'QSO'], ['ELG', 'QSO'], ['LRG', 'ELG', 'QSO'], ['LRG', 'ELG', 'QSO'], ['LRG', 'ELG']]))
    if draw(st.integers(0, 5)) == 0:
        tr = tr[::-1]  # dict order of the tracers argument must not matter for the stacking order
    hod = {T: _hod_params(draw, T) for T in tr}
    ov = draw(st.lists(st.tuples(st.sampled_from(['h', 'h', 'p']), st.integers(0, 300), st.sampled_from(['zero', 'edge', 'edge', 'edge']), st.integers(0, 2), st.sampled_from([0.0, 0.0, 1e-9, -1e-9, 1e-6, -1e-6])), max_size=8))
    origin = draw(st.sampled_from([None, None, None, [-990.0, -990.0, -990.0], [10.0, -2000.0, 300.0]]))
    return dict(H=H, P=P, seed=draw(st.integers(0, 2**31 - 1)), L=draw(st.sampled_from([2000.0, 500.0, 64.0])), velz2kms=draw(st.sampled_from([150.0, 100.0, 3200.0])),
                logm_lo=draw(st.sampled_from([11.0, 12.0, 10.0])), logm_hi=draw(st.sampled_from([15.0, 14.0, 16.0])), wmax=draw(st.sampled_from([0.6, 0.1, 1.0])),
                tracers=tr, hod=hod, multis=draw(st.sampled_from(['one', 'one', 'ints', 'frac'])), rsd=draw(st.booleans()), origin=origin, enable_ranks=draw(st.booleans()),
                nthread=draw(st.sampled_from([1, 2, 3, 7, 16])), overrides=[list(o) for o in ov])


def strategy(tier):
    return desc_strategy(tier)


def nontrivial(d):
    return len(d['tracers']) >= 2 or any(o[2] == 'edge' and o[4] == 0.0 for o in d['overrides'])


def classes(d):
    c = ['tracers=' + '+'.join(sorted(d['tracers'])), 'rsd=%d' % d['rsd'], 'origin=' + ('none' if d['origin'] is None else 'vec'), 'ranks=%d' % d['enable_ranks'], 'multis=' + d['multis'], 'H=0' if d['H'] == 0 else 'H>0', 'P=0' if d['P'] == 0 else 'P>0']
    if any(o[2] == 'edge' and o[4] == 0.0 for o in d['overrides']):
        c.append('random-on-edge')
    if any(o[2] == 'zero' for o in d['overrides']):
        c.append('random-zero')
    if any('logM1_EE' in d['hod'].get(T, {}) for T in d['tracers']):
        c.append('conformity')
    if any(d['hod'].get(T, {}).get('ic', 1.0) == 0 for T in d['tracers']):
        c.append('ic=0')
    return c


def prepare(d):
    """tables with the random overrides applied"""
    hd, pd_, tracers, params = HM.build_tables(d)
    H, P = len(hd['hmass']), len(pd_['phmass'])
    for kind, idx, what, k, delta in d['overrides']:
        if kind == 'h' and H:
            i = idx % H
            if what == 'zero':
                hd['hrandoms'][i] = 0.0
            else:
                m = HM.central_markers(hd, tracers, i)[k]
                hd['hrandoms'][i] = min(max(m + delta, 0.0), 1.0) if delta else m
    # particle edges depend on the (now final) host codes
    hc = [min(HM.codes_for(float(hd['hrandoms'][i]), HM.central_markers(hd, tracers, i))) for i in range(H)]
    for kind, idx, what, k, delta in d['overrides']:
        if kind == 'p' and P:
            j = idx % P
            if what == 'zero':
                pd_['prandoms'][j] = 0.0
            else:
                m = HM.satellite_markers(pd_, tracers, j, hc[int(pd_['pinds'][j])], bool(d['enable_ranks']))[k]
                pd_['prandoms'][j] = min(max(m + delta, 0.0), 1.0) if delta else m
    return hd, pd_, tracers, params


def run_gen(hd, pd_, tracers, params, nthread, enable_ranks, rsd, copy=True):
    from abacusnbody.hod.GRAND_HOD import gen_gal_cat

    hd2 = {k: v.copy() for k, v in hd.items()}
    pd2 = {k: v.copy() for k, v in pd_.items()}
    tr = {T: dict(v) for T, v in tracers.items()} if copy else tracers  # copy=False: hand over the caller's own dict objects
    out = call_repo(gen_gal_cat, hd2, pd2, tr, dict(params), Nthread=int(nthread), enable_ranks=bool(enable_ranks), rsd=bool(rsd), write_to_disk=False, verbose=False)
    res = {}
    for T in tracers:
        t = out[T]
        res[T] = {k: (np.array(t[k]) if k != 'Ncent' else int(t[k])) for k in t}
    return res


def check_against_model(d, hd, pd_, tracers, params, out):
    cent, sat, hcodes = HM.model(hd, pd_, tracers, params, bool(d['rsd']), bool(d['enable_ranks']))
    L = params['Lbox'] if params['origin'] is None and d['rsd'] else None
    ncent_total = nsat_total = 0
    used_h, used_p = {}, {}
    for T in tracers:
        t = out[T]
        R = HM.rows_of(t)
        ids = np.asarray(t['id'])
        if R is None or len(ids) != len(R):
            raise Violation('hod-ragged-columns', 'tracer %s: columns have different lengths' % T)
        nc = int(t['Ncent'])
        if not (0 <= nc <= len(R)):
            raise Violation('hod-ncent', 'tracer %s: Ncent=%d with %d rows' % (T, nc, len(R)))
        ok, msg, uh = HM.walk(R[:nc], ids[:nc], cent[T], L)
        if not ok:
            raise Violation('hod-centrals-rule', 'tracer %s centrals (first Ncent=%d rows): %s' % (T, nc, msg))
        ok, msg, up = HM.walk(R[nc:], ids[nc:], sat[T], L)
        if not ok:
            raise Violation('hod-satellites-rule', 'tracer %s satellites (rows after Ncent=%d): %s' % (T, nc, msg))
        for h in uh:
            if h in used_h:
                raise Violation('hod-two-galaxies-one-host', 'halo row %d hosts a central of %s and of %s' % (h, used_h[h], T))
            used_h[h] = T
        for p in up:
            if p in used_p:
                raise Violation('hod-two-galaxies-one-host', 'particle %d hosts a satellite of %s and of %s' % (p, used_p[p], T))
            used_p[p] = T
        ncent_total += nc
        nsat_total += len(R) - nc
    return ncent_total, nsat_total


def _same_rows(a, b):
    for k in a:
        if k == 'Ncent':
            if a[k] != b[k]:
                return False
        elif not (a[k].shape == b[k].shape and np.array_equal(a[k], b[k])):
            return False
    return True


def run_case(d):
    hd, pd_, tracers, params = prepare(d)
    out = run_gen(hd, pd_, tracers, params, d['nthread'], d['enable_ranks'], d['rsd'])
    nc, ns = check_against_model(d, hd, pd_, tracers, params, out)
    cls = []
    if nc:
        cls.append('centrals>0')
    if ns:
        cls.append('satellites>0')
    canon = [T for T in HM.TRACERS if T in tracers]
    # enabling a later tracer leaves earlier tracers' rows unchanged
    if len(canon) >= 2:
        sub = {T: tracers[T] for T in canon[:-1]}
        out2 = run_gen(hd, pd_, sub, params, d['nthread'], d['enable_ranks'], d['rsd'])
        for T in sub:
            if not _same_rows(out[T], out2[T]):
                raise Violation('hod-later-tracer-changes-earlier', 'rows of %s differ between tracer sets %s and %s' % (T, canon, list(sub)))
        cls.append('later-tracer-law')
    # nestedness in ic for centrals (first Ncent ids), one tracer's ic grows
    T = canon[d['seed'] % len(canon)]
    ic = tracers[T].get('ic', 1.0)
    if ic < 1.0:
        t2 = {k: dict(v) for k, v in tracers.items()}
        t2[T]['ic'] = min(1.0, ic * 1.7)
        out3 = run_gen(hd, pd_, t2, params, d['nthread'], d['enable_ranks'], d['rsd'])
        a = set(out[T]['id'][: out[T]['Ncent']].tolist())
        b = set(out3[T]['id'][: out3[T]['Ncent']].tolist())
        edge_hosts = {int(hd['hid'][i]) for i in range(len(hd['hid'])) if len(HM.codes_for(float(hd['hrandoms'][i]), HM.central_markers(hd, tracers, i))) > 1 or len(HM.codes_for(float(hd['hrandoms'][i]), HM.central_markers(hd, t2, i))) > 1}
        if not (a - edge_hosts) <= b:
            raise Violation('hod-not-nested-in-ic', '%s centrals with ic=%g are not a subset of those with ic=%g: %s lost' % (T, ic, t2[T]['ic'], sorted(a - b - edge_hosts)[:5]))
        cls.append('nested-law')
    # a history of two calls on the *same* tracer dictionaries with parameters changed in place in between (as a fit loop does):
    # the second catalogue must follow the rule of the second parameter set
    if d['seed'] % 3 == 0:
        shared = {T: dict(v) for T, v in tracers.items()}
        run_gen(hd, pd_, shared, params, d['nthread'], d['enable_ranks'], d['rsd'], copy=False)
        T2 = 'ELG' if 'ELG' in canon else canon[-1]
        p2 = {T: dict(v) for T, v in tracers.items()}
        for dct in (shared[T2], p2[T2]):
            dct['logM1'] = dct['logM1'] - 0.3
            dct['alpha'] = dct['alpha'] * 0.8
        out_b = run_gen(hd, pd_, shared, params, d['nthread'], d['enable_ranks'], d['rsd'], copy=False)
        try:
            check_against_model(d, hd, pd_, p2, params, out_b)
        except Violation as v:
            raise Violation('hod-second-call-on-same-dict:' + v.signature, 'second call on the same tracer dictionaries after changing %s logM1/alpha in place: %s' % (T2, v.detail))
        cls.append('two-call-history')
    nt = (len(canon) >= 2 and nc >= 1 and ns >= 1) or any(o[2] == 'edge' and o[4] == 0.0 for o in d['overrides'])
    return {'classes': cls, 'nontrivial': nt}
