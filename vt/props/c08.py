"""C08 — every Fourier mode is binned exactly once into the right (k, mu) bin.

Code under test: abacusnbody.analysis.power_spectrum.{bin_kmu, bin_kppi, P_n, calc_pk_from_deltak}
(and the configuration-space variant fourier=False of the two binning kernels).

Generator: mesh size n (odd and even), box L, mesh values (ones / positive random / signed random /
single spike), k-edge arrays built in *squared mode units* (half-integers = tie free, integers =
deliberate ties, integer-k linear grids, linspace, geomspace, arbitrary reals; starting at/above 0,
ending below / at / above Nyquist and above the mesh corner), mu-edges 0..1 (uniform or arbitrary
interior points incl. tie-prone ones), multipole sets from {0..4}, thread counts {1,2,3,5,16},
three entry points (bin_kmu, calc_pk_from_deltak incl. cross spectra, bin_kppi with pimax below /
at / above the largest kz), float32 and float64 meshes.

Oracle: vt.oracles.modes — brute force over the *full* n^3 mesh under Hermitian completion (every
mode once), exact integer |k|^2 / k_perp^2 / kz^2, tie-aware bin membership (a mode within 4 float32
ulp of a squared edge may fall on either side; counts must lie between the definite and the possible
members of each bin, the grand total between the definitely-inside and possibly-inside modes).
Means (value, |k|, (2l+1)P_l-weighted value) are compared in float64 for all bins without ambiguous
members, with a tolerance derived from float32 accumulation.  Counts must be identical for two
thread counts, and the l=0 multipole must equal the count-weighted mu-average of the wedges.

A count mismatch is attributed to a root cause by re-evaluating the enumerator under known wrong
conventions (odd-mesh folding, Nyquist-plane weight 2, early break in bin_kppi); these variants only
choose the *signature*, never the verdict.
"""
import functools
import os
import sys

import numpy as np
from hypothesis import strategies as st

from vt.core import Reject, Violation, call_repo
from vt.oracles import modes

ID = 'C08'
RULE = (
    'Hypothesis descriptors (api in {bin_kmu, calc_pk_from_deltak, bin_kppi}, n, L, fourier/real space, squared k-edges in mode '
    'units, mu-edges or (pimax, Npi), multipoles, two thread counts, mesh values, precision); non-trivial = at least 2 k-bins, '
    'at least one mode definitely inside and one outside the binned range, and for bin_kppi a k_perp range that ends below the mesh '
    'corner (so that folded negative frequencies matter); distinct = descriptor hash.'
)
ASSUMPTIONS = [
    'mu edges start at 0 and end at 1 (docstrings: "mu ranges from 0 to 1"); other mu ranges are out of domain',
    'mu is |kz|/|k| in [0,1] also for odd multipoles; the DC mode has no mu: it may sit in any mu bin and its contribution to l>0 multipoles is not judged',
    'a mode whose |k|^2, k_perp^2, kz^2 or mu^2 is within 4 float32 ulp of a squared edge may be counted on either side (also in/out at an outer edge, including |k| = 0 on a first k edge of exactly 0); the mu range [0,1] and the lower end pi = 0 are closed',
    'float tolerance per bin: (4*2^-24*(N_mode+8) + 1e-6) * mean|term| (sequential float32 accumulation bound); multipoles additionally 2e-6 * (2l+1) * sum|coeff(P_l)| for the float32 Legendre evaluation',
    'real-space (fourier=False) meshes are generated point-symmetric, as produced by irfftn of a real P(k)',
    'shards alternate NUMBA_BOUNDSCHECK=1 (pattern BOUNDSCHECK); in the shards without it bin_kppi is first run through its pure-Python twin whenever pimax is below the largest kz (numpy bounds checks), so no compiled out-of-bounds read is ever executed',
]

SIG_ODDFOLD = 'odd-mesh-frequency-folding'
SIG_EARLYBREAK = 'kppi-early-break-drops-modes'
SIG_NYQ = 'nyquist-plane-multiplicity'
SIG_NTHREAD = 'mode-count-depends-on-nthread'
SIG_TIE_NTHREAD = 'tie-direction-depends-on-nthread'
SIG_POLE0 = 'pole0-vs-wedges'
SIG_OOB = 'bin_kppi-piedges-oob'

NTHREADS = [1, 2, 3, 5, 16]
BOXES = [1.0, 6.283185307179586, 25.0, 100.0, 1000.0, 2000.0, 17.3, 0.5]
_TIE_MU = sorted({round(float(np.sqrt(a / b)), 17) for b in range(2, 10) for a in range(1, b)})

_evidence = {'cases_with_ties': 0, 'ambiguous_modes': 0, 'bins_with_means_judged': 0, 'modes_enumerated': 0}


def config(tier):
    if tier == 'quick':
        return dict(shards=4, examples=375, numba_threads=16, boundscheck=BOUNDSCHECK, shrink_calls=150, soft_s=100, env={'OMP_WAIT_POLICY': 'passive'})
    return dict(shards=8, examples=12000, numba_threads=16, boundscheck=BOUNDSCHECK, shrink_calls=300, soft_s=800, env={'OMP_WAIT_POLICY': 'passive'})


# ----------------------------------------------------------------------------------------------
# strategy
# ----------------------------------------------------------------------------------------------


@st.composite
def _kq(draw, n):
    h = n // 2
    nyq, corner = h * h, 3 * h * h
    tclass = draw(st.sampled_from(['below', 'nyq', 'above', 'corner+']))
    if tclass == 'below':
        tm = draw(st.integers(1, max(1, nyq - 1)))
    elif tclass == 'nyq':
        tm = max(nyq, 1)
    elif tclass == 'above':
        tm = draw(st.integers(nyq + 1, max(nyq + 1, corner)))
    else:
        tm = corner + draw(st.integers(1, 3))
    kind = draw(st.sampled_from(['half', 'half', 'int', 'int', 'sqint', 'lin', 'geom', 'real']))
    if kind in ('half', 'int'):
        off = 0.5 if kind == 'half' else 0.0
        last = tm + off if (kind == 'int' or draw(st.booleans()) or tm == 0) else tm - 0.5
        lo_m = draw(st.sampled_from([-1, -1, 0, 1, 2]))  # -1: start at exactly 0
        first = 0.0 if lo_m < 0 else lo_m + off
        if first >= last:
            first = 0.0
        cand = [m + off for m in range(0, tm + 1) if first < m + off < last]
        ninner = draw(st.integers(0, min(7, len(cand))))
        inner = draw(st.lists(st.sampled_from(cand), min_size=ninner, max_size=ninner, unique=True)) if ninner else []
        q = [first] + sorted(inner) + [last]
    elif kind == 'sqint':
        a = draw(st.sampled_from([0.5, 1.0, 1.5, 2.0]))
        nb = draw(st.integers(1, 8))
        b0 = draw(st.sampled_from([0, 0, 1]))
        q = [float((a * b) ** 2) for b in range(b0, b0 + nb + 1)]
    elif kind == 'lin':
        kmax = float(np.sqrt(tm + draw(st.sampled_from([0.0, 0.0, 0.37]))))
        nb = draw(st.integers(1, 8))
        k0 = draw(st.sampled_from([0.0, 0.0, 1.0]))
        if k0 >= kmax:
            k0 = 0.0
        q = [float(x) ** 2 for x in np.linspace(k0, kmax, nb + 1)]
    elif kind == 'geom':
        kmax = max(float(np.sqrt(tm)), 1.5)
        nb = draw(st.integers(1, 8))
        q = [float(x) ** 2 for x in np.geomspace(1.0 - 1.0e-4, kmax, nb + 1)]
    else:
        nb = draw(st.integers(1, 7))
        first = draw(st.sampled_from([0.0, 0.3, 0.75, 1.6]))
        step = (tm + 1.0) / nb
        incs = draw(st.lists(st.floats(0.05, 2.0 * step + 0.1, allow_nan=False, allow_infinity=False), min_size=nb, max_size=nb))
        q = [first]
        for x in incs:
            q.append(q[-1] + round(x, 4))
    return kind, tclass, [float(x) for x in q]


@st.composite
def _mu(draw):
    if draw(st.booleans()):
        nmu = draw(st.integers(1, 6))
        return 'uniform', [float(x) for x in np.linspace(0.0, 1.0, nmu + 1)]
    inner = draw(
        st.lists(
            st.one_of(st.sampled_from(_TIE_MU), st.floats(0.02, 0.98, allow_nan=False).map(lambda x: round(x, 3))),
            min_size=0,
            max_size=5,
            unique=True,
        )
    )
    inner = sorted(x for x in set(inner) if 0.0 < x < 1.0)
    return 'arbitrary', [0.0] + inner + [1.0]


# Every (entry point, precision) pair is a separate numba compilation (5-15 s each, more on a loaded
# machine).  A shard therefore draws from one group of pairs only; the groups cycle over the shards.
# (The shard number is read from the worker's command line; without it all pairs are mixed.)
GROUPS = [
    [('kmu', 'f4')],
    [('kmu', 'f8'), ('kppi', 'f8')],
    [('pk', 'f4')],
    [('kppi', 'f4'), ('kppi', 'f4'), ('pk', 'f8')],
]
ALL_PAIRS = [('kmu', 'f4')] * 3 + [('kmu', 'f8')] + [('pk', 'f4')] * 2 + [('pk', 'f8')] + [('kppi', 'f4')] * 2 + [('kppi', 'f8')]
# bounds-checked shards: each group is compiled with and without NUMBA_BOUNDSCHECK when there are >= 8 shards
BOUNDSCHECK = [True, False, False, True, False, True, True, False]


def _shard_from_argv():
    try:
        return int(sys.argv[sys.argv.index('--shard') + 1])
    except (ValueError, IndexError):
        return None


_NS = {
    12: [1, 2, 3, 4, 4, 5, 5, 6, 6, 7, 7, 8, 8, 9, 9, 10, 11, 12],
    24: [1, 2, 3, 4, 5, 5, 6, 6, 7, 7, 8, 8, 9, 9, 10, 11, 12, 13, 14, 15, 16, 17, 18, 19, 20, 21, 22, 23, 24],
}


@st.composite
def _desc(draw, nmax, pairs):
    api, prec = draw(st.sampled_from(pairs))
    n = draw(st.sampled_from(_NS[nmax]))
    L = draw(st.sampled_from(BOXES))
    fourier = True if api == 'pk' else draw(st.sampled_from([True, True, True, False]))
    kkind, tclass, kq = draw(_kq(n))
    nthread = draw(st.sampled_from(NTHREADS))
    nthread2 = 1 if nthread != 1 else draw(st.sampled_from([2, 3, 16]))
    d = dict(
        api=api,
        n=n,
        L=L,
        fourier=fourier,
        kkind=kkind,
        tclass=tclass,
        kq=kq,
        nthread=nthread,
        nthread2=nthread2,
        wkind=draw(st.sampled_from(['ones', 'rand', 'rand', 'signed', 'spike'])),
        seed=draw(st.integers(0, 2**31 - 1)),
        prec=prec,
    )
    if api in ('kmu', 'pk'):
        mukind, mu = draw(_mu())
        d['mukind'] = mukind
        d['mu'] = mu
        d['poles'] = draw(
            st.one_of(
                st.sampled_from([[], [0], [0, 2, 4], [0, 2], [2], [4, 0]]),
                st.lists(st.sampled_from([0, 1, 2, 3, 4]), unique=True, max_size=5),
            )
        )
        if api == 'pk':
            d['cross'] = draw(st.booleans())
            d['squeeze'] = draw(st.sampled_from([True, True, False]))
    else:
        h = n // 2
        pclass = draw(st.sampled_from(['below', 'at', 'above', 'above']))
        if pclass == 'below' and h >= 1:
            m = draw(st.integers(0, h * h - 1))
            pq = m + draw(st.sampled_from([0.5, 0.0, 0.25])) if m > 0 else 0.5
        elif pclass == 'at' and h >= 1:
            pq = float(h * h)
        else:
            pq = draw(st.sampled_from([h * h + 0.5, float((h + 1) ** 2), 2.0 * h * h + 0.5, h * h + 3.0]))
        d['pimax_q'] = float(pq)
        d['npi'] = draw(st.integers(1, 5))
    return d


def strategy(tier):
    shard = _shard_from_argv()
    pairs = ALL_PAIRS if shard is None else GROUPS[shard % len(GROUPS)]
    return _desc(12 if tier == 'quick' else 24, pairs)


# ----------------------------------------------------------------------------------------------
# deterministic builders
# ----------------------------------------------------------------------------------------------


@functools.lru_cache(maxsize=64)
def _full(n, stored):
    return modes.full_model(n, stored)


@functools.lru_cache(maxsize=256)
def _half(n, stored, nyq, oddfold):
    return modes.half_model(n, stored, nyquist_weight=nyq, oddfold=oddfold)


def _check_desc(d):
    n = d['n']
    if not (isinstance(n, int) and 1 <= n <= 32):
        raise Reject('n out of range')
    kq = d['kq']
    if len(kq) < 2 or any(not (b > a) for a, b in zip(kq, kq[1:])) or kq[0] < 0:
        raise Reject('k edges not strictly increasing / negative')
    if d['api'] in ('kmu', 'pk'):
        mu = d['mu']
        if len(mu) < 2 or mu[0] != 0.0 or mu[-1] != 1.0 or any(not (b > a) for a, b in zip(mu, mu[1:])):
            raise Reject('mu edges must increase from 0 to 1')
        if any(p not in (0, 1, 2, 3, 4) for p in d['poles']) or len(set(d['poles'])) != len(d['poles']):
            raise Reject('poles')
    else:
        if not (d['pimax_q'] > 0 and d['npi'] >= 1):
            raise Reject('pimax/Npi')


def _kunit(d):
    return 2.0 * np.pi / d['L'] if d['fourier'] else d['L'] / d['n']


def _inv_kunit(d):
    """1 / (size of a mode unit), computed differently from the package (L/(2 pi) resp. n/L)."""
    return d['L'] / (2.0 * np.pi) if d['fourier'] else d['n'] / d['L']


def _real_values(d, rng, shape):
    wk = d['wkind']
    if wk == 'ones':
        return np.ones(shape)
    if wk == 'rand':
        return 0.5 + rng.random(shape)
    if wk == 'signed':
        return rng.standard_normal(shape)
    v = np.zeros(shape)
    idx = tuple(int(rng.integers(0, s)) for s in shape)
    v[idx] = 1000.0
    return v


def _build_mesh(d):
    """-> (mesh handed to the package, flat float64 values the oracle reads, stored layout, tolerance scales or None)"""
    n = d['n']
    kz = n // 2 + 1
    rng = np.random.Generator(np.random.PCG64(int(d['seed'])))
    dt = np.float32 if d['prec'] == 'f4' else np.float64
    if d['api'] == 'pk':
        cdt = np.complex64 if d['prec'] == 'f4' else np.complex128

        def cfield():
            if d['wkind'] == 'ones':
                return np.ones((n, n, kz), dtype=cdt)
            if d['wkind'] == 'spike':
                f = np.zeros((n, n, kz), dtype=cdt)
                f[tuple(int(rng.integers(0, s)) for s in f.shape)] = 20.0 - 15.0j
                return f
            return (rng.standard_normal((n, n, kz)) + 1j * rng.standard_normal((n, n, kz))).astype(cdt)

        f1 = cfield()
        f2 = cfield() if d.get('cross') else None
        a = f1.astype(np.complex128)
        if f2 is None:
            vals = a.real**2 + a.imag**2
            scal = vals
        else:
            b = f2.astype(np.complex128)
            vals = a.real * b.real + a.imag * b.imag  # Re(conj(a) b)
            # the package forms this in the field's precision: its rounding error scales with |a||b|, not with the
            # (possibly cancelling) real part
            scal = np.abs(a.real * b.real) + np.abs(a.imag * b.imag)
        L3 = float(d['L']) ** 3
        return (f1, f2), (vals * L3).ravel(), 'half', (scal * L3).ravel()
    half = _real_values(d, rng, (n, n, kz)).astype(dt)
    if d['fourier']:
        return half, half.astype(np.float64).ravel(), 'half', None
    # configuration space: a point-symmetric real (n, n, n) mesh (Xi(-r) = Xi(r))
    h64 = half.astype(np.float64)
    inv = (-np.arange(n)) % n
    full = np.empty((n, n, n))
    full[:, :, :kz] = h64
    for k in range(kz, n):
        full[:, :, k] = h64[inv][:, inv][:, :, n - k]
    for k in {0, n // 2} if n % 2 == 0 else {0}:
        full[:, :, k] = 0.5 * (full[:, :, k] + full[inv][:, inv][:, :, k])
    full = np.ascontiguousarray(full.astype(dt))
    return full, full.astype(np.float64).ravel(), 'full', None


def _edges(d):
    ku = _kunit(d)
    kedges = ku * np.sqrt(np.asarray(d['kq'], dtype=np.float64))
    ke_sq = (kedges * _inv_kunit(d)) ** 2
    return kedges, ke_sq


# ----------------------------------------------------------------------------------------------
# judging
# ----------------------------------------------------------------------------------------------

U32 = 2.0**-24


def _rtol(nmode):
    return 4.0 * U32 * (float(nmode) + 8.0) + 1.0e-6


def _judge_counts(api, ref, counts, counts_x=None):
    """-> None | (kind, detail)"""
    lo, hi = ref.lo, ref.hi
    tot = int(counts.sum())
    if not (ref.total_lo <= tot <= ref.total_hi):
        return 'total', 'grand total of modes %d, expected %s (modes dropped or invented); counts=%s expected between %s and %s' % (
            tot,
            ref.total_lo if ref.total_lo == ref.total_hi else '%d..%d' % (ref.total_lo, ref.total_hi),
            counts.tolist(),
            lo.tolist(),
            hi.tolist(),
        )
    bad = (counts < lo) | (counts > hi)
    if bad.any():
        b = tuple(int(x) for x in np.argwhere(bad)[0])
        return 'misplaced', 'bin %s holds %d modes, expected %s (total %d is right: modes in the wrong bin); counts=%s expected between %s and %s' % (
            b,
            int(counts[b]),
            int(lo[b]) if lo[b] == hi[b] else '%d..%d' % (lo[b], hi[b]),
            tot,
            counts.tolist(),
            lo.tolist(),
            hi.tolist(),
        )
    if counts_x is not None:
        badx = (counts_x < ref.lo_x) | (counts_x > ref.hi_x)
        if badx.any():
            b = int(np.argwhere(badx)[0][0])
            return 'misplaced', 'k-bin %d holds %d modes (N_mode_poles), expected %d..%d' % (b, int(counts_x[b]), ref.lo_x[b], ref.hi_x[b])
    return None


def _judge_means(ref, counts, got, expected_sum, abs_sum, what):
    lo, hi = ref.lo, ref.hi
    clean = lo == hi
    for b in np.argwhere(clean):
        b = tuple(int(x) for x in b)
        c = int(lo[b])
        g = float(got[b])
        if c == 0:
            if g != 0.0:
                return '%s of empty bin %s is %r, expected 0' % (what, b, g)
            continue
        e = expected_sum[b] / c
        tol = _rtol(c) * abs_sum[b] / c + 1e-300
        _evidence['bins_with_means_judged'] += 1
        if not (abs(g - e) <= tol):
            return '%s in bin %s: got %r expected %r (|diff| %.3g > tol %.3g, N=%d)' % (what, b, g, e, abs(g - e), tol, c)
    return None


def _judge_kmu(d, model, values, ke_sq, mu_sq, out, scales=None):
    """Compare one bin_kmu-style result with the enumerator under `model`.
    -> None | (kind in {'shape','count:total','count:misplaced','mean','kavg','pole'}, detail)"""
    poles = list(d['poles'])
    ref = modes.kmu_reference(model, values, ke_sq, mu_sq, poles, _kunit(d), scales)
    power, counts, pl, counts_p, kavg = out
    c = _judge_counts(d['api'], ref, counts, counts_p)
    if c is not None:
        return 'count:' + c[0], c[1], ref
    ok, why = modes.k_ties_consistent(model, ref, np.asarray(counts).sum(axis=1))
    if not ok:
        return 'count:tie-orbit-split', why, ref
    m = _judge_means(ref, counts, power, ref.sum_v, ref.sum_abs, 'mean value')
    if m:
        return 'mean', m, ref
    m = _judge_means(ref, counts, kavg, ref.sum_k, ref.sum_k, 'mean |k|')
    if m:
        return 'kavg', m, ref
    cleanx = ref.lo_x == ref.hi_x
    for ip, l in enumerate(poles):
        for b in np.argwhere(cleanx).ravel():
            b = int(b)
            cnt = int(ref.lo_x[b])
            g = float(pl[ip, b])
            if cnt == 0:
                if g != 0.0:
                    return 'pole', 'l=%d multipole of empty k-bin %d is %r' % (l, b, g), ref
                continue
            e = ref.pole_sum[l][b] / cnt
            scale = (2 * l + 1) * modes.LEGENDRE_ABS[l] * ref.abs_x[b] / cnt
            tol = (_rtol(cnt) + (2e-6 if l else 0.0)) * scale + 1e-300
            if l > 0 and b in ref.dc_bins:
                tol += (2 * l + 1) * 1.5 * ref.dc_abs / cnt
            if not (abs(g - e) <= tol):
                return 'pole', 'l=%d multipole in k-bin %d: got %r expected %r (|diff| %.3g > tol %.3g, N=%d)' % (l, b, g, e, abs(g - e), tol, cnt), ref
    return None, None, ref


def _judge_kppi(d, model, values, ke_sq, pi_sq, out):
    ref = modes.kppi_reference(model, values, ke_sq, pi_sq)
    power, counts = out
    c = _judge_counts('kppi', ref, counts)
    if c is not None:
        return 'count:' + c[0], c[1], ref
    m = _judge_means(ref, counts, power, ref.sum_v, ref.sum_abs, 'mean value')
    if m:
        return 'mean', m, ref
    return None, None, ref


def _variants(d, stored, kedges):
    """Known wrong conventions for root-cause attribution: list of (signature list, model)."""
    n = d['n']
    par = []
    if n % 2 == 0:
        par.append((SIG_NYQ, dict(nyq=2, oddfold=False)))
    else:
        par.append((SIG_ODDFOLD, dict(nyq=1, oddfold=True)))
    out = [([s], _half(n, stored, kw['nyq'], kw['oddfold'])) for s, kw in par]
    if d['api'] == 'kppi':
        last = float((kedges[-1] * _inv_kunit(d)) ** 2)
        tie = modes.TIE_ULPS * modes.EPS32 * last
        kz = n // 2 + 1

        def early(m, thr):
            # the j loop is left at the first j whose k_perp^2 reaches the last edge; everything behind it is lost
            kp = m.kp2.reshape(n, n, kz)[:, :, 0].astype(np.float64)
            over = kp >= thr
            jstar = np.where(over.any(axis=1), over.argmax(axis=1), n)
            keep = (np.arange(n)[None, :] < jstar[:, None])[:, :, None] & np.ones((1, 1, kz), dtype=bool)
            return modes.restrict(m, keep.ravel(), m.name + '+earlybreak')

        # a column exactly on the last edge may or may not trigger the break: both directions
        for thr in (last - tie, last + tie) if tie > 0 else (last,):
            out.append(([SIG_EARLYBREAK], early(_half(n, stored, 1, False), thr)))
            for s, kw in par:
                out.append(([SIG_EARLYBREAK, s], early(_half(n, stored, kw['nyq'], kw['oddfold']), thr)))
    return out


_PRIORITY = [SIG_ODDFOLD, SIG_EARLYBREAK, SIG_NYQ]


def _attribute(d, judge, stored, kedges, kind, detail):
    """A mismatch against the statement: does a known wrong convention reproduce the observed result completely?
    Always raises."""
    api = d['api']
    other = None
    explains = []
    for sigs, model in _variants(d, stored, kedges):
        k2, det2, _ = judge(model)
        if k2 is None:
            explains.append(sigs)
        elif not k2.startswith('count') and other is None:
            other = (k2, det2, sigs)
    if explains:
        size = min(len(x) for x in explains)
        best = [x for x in explains if len(x) == size]
        sig = [s for s in _PRIORITY if any(s in x for x in best)][0]
        raise Violation(
            sig,
            '%s [api=%s n=%d fourier=%s; the observed result is reproduced completely by the enumerator with: %s]'
            % (detail, api, d['n'], d['fourier'], ' | or: '.join(' + '.join(x) for x in explains)),
        )
    tail = ' [api=%s n=%d fourier=%s]' % (api, d['n'], d['fourier'])
    if not kind.startswith('count'):
        raise Violation('%s-%s-wrong' % (api, kind), detail + tail)
    if other is not None:
        k2, det2, sigs = other
        raise Violation('%s-%s-wrong' % (api, k2), '%s [counts follow the wrong convention %s; on top of that]%s' % (det2, '+'.join(sigs), tail))
    raise Violation('%s-mode-count-%s' % ('kppi' if api == 'kppi' else 'kmu', kind.split(':')[1]), detail + tail)


def _shape_check(d, out, nk, ny):
    api = d['api']
    if api == 'kppi':
        power, counts = out
        if power.shape != (nk, ny) or counts.shape != (nk, ny):
            raise Violation('kppi-output-shape', 'shapes %s %s expected (%d,%d)' % (power.shape, counts.shape, nk, ny))
    else:
        power, counts, pl, counts_p, kavg = out
        npole = len(d['poles'])
        ok = power.shape == (nk, ny) and counts.shape == (nk, ny) and kavg.shape == (nk, ny) and counts_p.shape == (nk,)
        ok = ok and (pl.shape == (npole, nk))
        if not ok:
            raise Violation('%s-output-shape' % api, 'shapes power%s N%s poles%s Np%s kavg%s for Nk=%d Nmu=%d Npoles=%d' % (power.shape, counts.shape, pl.shape, counts_p.shape, kavg.shape, nk, ny, npole))
        if not np.issubdtype(counts_p.dtype, np.integer):
            raise Violation('%s-count-not-integer' % api, 'N_mode_poles dtype %s' % counts_p.dtype)
    if not np.issubdtype(counts.dtype, np.integer):
        raise Violation('%s-count-not-integer' % api, 'N_mode dtype %s' % counts.dtype)


def _call(d, ps, mesh, kedges, nthread):
    """-> tuple in bin_kmu / bin_kppi order, 2-d tables"""
    n, L = int(d['n']), float(d['L'])
    fdt = np.float32 if d['prec'] == 'f4' else np.float64
    api = d['api']
    if api == 'kmu':
        poles = np.array(d['poles'], dtype=np.int64) if d['poles'] else np.empty(0, 'i8')
        mu = np.asarray(d['mu'], dtype=np.float64)
        return call_repo(ps.bin_kmu, n, L, kedges, mu, mesh, poles, fdt, bool(d['fourier']), int(nthread))
    if api == 'pk':
        poles = np.array(d['poles'], dtype=np.int64) if d['poles'] else np.empty(0, 'i8')
        mu = np.asarray(d['mu'], dtype=np.float64)
        f1, f2 = mesh
        r = call_repo(ps.calc_pk_from_deltak, f1, L, kedges, mu, field2_fft=f2, poles=poles, squeeze_mu_axis=bool(d['squeeze']), nthread=int(nthread))
        for key in ('power', 'N_mode', 'binned_poles', 'N_mode_poles', 'k_avg'):
            if key not in r:
                raise Violation('pk-output-shape', 'missing key %s' % key)
        power, N, kavg = r['power'], r['N_mode'], r['k_avg']
        squeezed = bool(d['squeeze']) and len(mu) == 2
        for a in (power, N, kavg):
            if a.ndim != (1 if squeezed else 2):
                raise Violation('pk-output-shape', 'squeeze_mu_axis=%s Nmu=%d but ndim=%d' % (d['squeeze'], len(mu) - 1, a.ndim))
        if squeezed:
            power, N, kavg = power[:, None], N[:, None], kavg[:, None]
        return power, N, r['binned_poles'], r['N_mode_poles'], kavg
    pimax = _kunit(d) * float(np.sqrt(d['pimax_q']))
    return _call_kppi(d, ps, n, L, kedges, pimax, mesh, fdt, nthread)


def _kppi_unsafe(d):
    """Some kz^2 may exceed the last pi edge: on the unchanged tree the pi search then reads past piedges2 (D6, owned by C11)."""
    h = d['n'] // 2
    return float(h * h) > d['pimax_q'] * (1.0 - 8 * modes.EPS32)


_d6_probe = {}


def _tree_reads_past_piedges(ps):
    """Once per process: does bin_kppi search the pi edges before the range test (D6)?  Decided on a tiny
    canonical input with the pure-Python twin, where numpy raises IndexError instead of reading out of bounds."""
    if 'v' not in _d6_probe:
        dk = 2.0 * np.pi
        try:
            ps.bin_kppi.py_func(2, 1.0, dk * np.array([0.0, 3.0]), dk * np.sqrt(0.5), 1, np.ones((2, 2, 2), np.float32), np.float32, True, 1)
            _d6_probe['v'] = False
        except IndexError:
            _d6_probe['v'] = True
    return _d6_probe['v']


class _Skip(Exception):
    pass


def _call_kppi(d, ps, n, L, kedges, pimax, mesh, fdt, nthread):
    args = (n, L, kedges, pimax, int(d['npi']), mesh, fdt, bool(d['fourier']), int(nthread))
    unsafe = _kppi_unsafe(d)
    boundscheck = os.environ.get('NUMBA_BOUNDSCHECK', '0') not in ('', '0')
    if unsafe and not boundscheck:
        # never execute a compiled out-of-bounds read: the pure-Python twin first (numpy checks indices)
        try:
            ps.bin_kppi.py_func(*args)
        except IndexError as e:
            raise Violation(SIG_OOB, 'bin_kppi(py_func) n=%d pimax^2=%g mode units < largest kz^2=%d: %s' % (n, d['pimax_q'], (n // 2) ** 2, e))
        if _tree_reads_past_piedges(ps):
            # pimax within rounding of the largest kz: the twin stayed in bounds, but the compiled (fastmath) edges may
            # differ in the last bit and the unguarded search could then read past the array -- not executed here
            raise _Skip('kppi-compiled-call-skipped:pimax-tie-with-unguarded-pi-search')
    try:
        return ps.bin_kppi(*args)
    except (IndexError, SystemError) as e:
        if unsafe:
            raise Violation(SIG_OOB, 'bin_kppi under NUMBA_BOUNDSCHECK n=%d pimax^2=%g mode units <= largest kz^2=%d: %s: %s' % (n, d['pimax_q'], (n // 2) ** 2, type(e).__name__, e))
        raise Violation('raised:%s:bin_kppi' % type(e).__name__, str(e)[:500])
    except Exception as e:
        raise Violation('raised:%s:bin_kppi' % type(e).__name__, str(e)[:500])


def _pole0_identity(d, out):
    power, counts, pl, counts_p, kavg = out
    if not np.array_equal(counts_p, counts.sum(axis=1)):
        raise Violation('kmu-count-poles-inconsistent', 'N_mode_poles=%s but N_mode summed over mu=%s' % (counts_p.tolist(), counts.sum(axis=1).tolist()))
    if 0 not in d['poles']:
        return
    ip = list(d['poles']).index(0)
    p64, c64 = power.astype(np.float64), counts.astype(np.float64)
    for b in range(counts.shape[0]):
        cnt = float(counts_p[b])
        lhs = float(pl[ip, b]) * cnt
        rhs = float((p64[b] * c64[b]).sum())
        tol = 4e-6 * float((np.abs(p64[b]) * c64[b]).sum()) + 1e-300
        if not (abs(lhs - rhs) <= tol):
            raise Violation(SIG_POLE0, 'k-bin %d: P_0*N=%r but sum_mu P(k,mu) N(k,mu)=%r (tol %.3g); wedges=%s N=%s' % (b, lhs, rhs, tol, power[b].tolist(), counts[b].tolist()))


# ----------------------------------------------------------------------------------------------
# the case
# ----------------------------------------------------------------------------------------------


def _range_info(d):
    """(definitely inside, possibly inside, total) mode counts of the binned range on the full mesh."""
    n = d['n']
    f = _full(n, 'half')
    _, ke_sq = _edges(d)
    if d['api'] == 'kppi':
        ka, kb = modes.edge_count_range(f.kp2.astype(np.float64), ke_sq)
        pe = (np.linspace(0.0, 1.0, d['npi'] + 1) ** 2) * d['pimax_q']
        pa, pb = modes.edge_count_range(f.kz2.astype(np.float64), pe)
        pa, pb = np.maximum(pa, 1), np.maximum(pb, 1)
        inside = (ka >= 1) & (kb <= len(ke_sq) - 1) & (pa >= 1) & (pb <= d['npi'])
    else:
        ka, kb = modes.edge_count_range(f.k2.astype(np.float64), ke_sq)
        inside = (ka >= 1) & (kb <= len(ke_sq) - 1)
    return int(inside.sum()), n**3


def nontrivial(d):
    if d.get('mode') == 'bigmesh':
        return True
    try:
        _check_desc(d)
    except Reject:
        return False
    if len(d['kq']) < 3:
        return False
    inside, total = _range_info(d)
    if inside < 1 or inside >= total:
        return False
    if d['api'] == 'kppi':
        h = d['n'] // 2
        return d['kq'][-1] < 2 * h * h
    return True


def classes(d):
    if d.get('mode') == 'bigmesh':
        return ['bigmesh', 'api=' + d['api']]
    n, h = d['n'], d['n'] // 2
    c = ['api=' + d['api'], 'n-odd' if n % 2 else 'n-even', 'n<=3' if n <= 3 else 'n<=12' if n <= 12 else 'n>12']
    c.append('space=' + ('fourier' if d['fourier'] else 'real'))
    c.append('kedges=' + d.get('kkind', '?'))
    last = d['kq'][-1]
    c.append('kend=' + ('below-nyq' if last < h * h else 'at-nyq' if last == h * h else 'above-corner' if last > 3 * h * h else 'nyq..corner'))
    c.append('kstart=' + ('0' if d['kq'][0] == 0 else '>0'))
    c.append('nthread=%d' % d['nthread'])
    c.append('values=' + d['wkind'])
    c.append('prec=' + d['prec'])
    if d['api'] == 'kppi':
        pq = d['pimax_q']
        c.append('pimax=' + ('below-kzmax' if pq < h * h else 'at-kzmax' if pq == h * h else 'above-kzmax'))
    else:
        c.append('nmu=%d' % (len(d['mu']) - 1) if len(d['mu']) <= 4 else 'nmu>=4')
        c.append('mu=' + d.get('mukind', '?'))
        ps_ = d['poles']
        c.append('poles=none' if not ps_ else 'poles=odd-l' if any(p % 2 for p in ps_) else 'poles=even-l')
        if d['api'] == 'pk':
            c.append('pk-cross' if d.get('cross') else 'pk-auto')
    return c


EXHAUSTIVE_NOTE = 'fixed large-mesh cases (n=272, quick; also n=336, thorough): mesh of ones, tie-free radial edges, counts compared with an exact vectorised int64 histogram (bins beyond 2^24 modes: exactness of the integer counts for every thread count); not a complete enumeration of anything'


def exhaustive(tier, shard, nshards):
    items = [dict(mode='bigmesh', api='kmu', n=272, nthreads=[1, 16]), dict(mode='bigmesh', api='kppi', n=272, nthreads=[1, 3])]
    if tier == 'thorough':
        items += [dict(mode='bigmesh', api='kmu', n=336, nthreads=[1, 2, 16]), dict(mode='bigmesh', api='pk', n=300, nthreads=[1, 5])]
    for i, it in enumerate(items):
        if i % nshards == shard:
            yield it


def _run_bigmesh(d, ps):
    """Counts must be exact integers for any bin size: one-thread accumulators of more than 2^24 modes."""
    n = int(d['n'])
    kz = n // 2 + 1
    L = 2 * np.pi  # dk = 1: edges are in mode units
    mesh = np.ones((n, n, kz), dtype=np.float32)
    f = np.arange(n, dtype=np.int64)
    f = np.where(f < (n + 1) // 2, f, f - n)
    k2 = (f[:, None, None] ** 2 + f[None, :, None] ** 2 + np.arange(kz, dtype=np.int64)[None, None, :] ** 2)
    mult = np.full(kz, 2, dtype=np.int64)
    mult[0] = 1
    if n % 2 == 0:
        mult[-1] = 1
    radii = np.array([0.5, n / 8 + 0.25, n / 4 + 0.25, n], dtype=np.float64)  # squared radii are never integers: tie-free; the last bin holds > 2^24 modes
    cls = []
    for nt in d['nthreads']:
        if d['api'] == 'kppi':
            kp2 = f[:, None] ** 2 + f[None, :] ** 2
            pimax = n / 2 + 0.5
            piedge = np.array([0.0, pimax])
            exp = np.zeros((3, 1), dtype=np.int64)
            inpi = (np.arange(kz) < pimax)
            wz = int((mult * inpi).sum())
            for b in range(3):
                exp[b, 0] = int(((kp2 >= radii[b] ** 2) & (kp2 < radii[b + 1] ** 2)).sum()) * wz
            wc, counts = call_repo(ps.bin_kppi, n, L, radii, float(pimax), 1, mesh, nthread=int(nt))
            got = np.asarray(counts)
        else:
            exp = np.zeros((3, 1), dtype=np.int64)
            for b in range(3):
                sel = (k2 >= radii[b] ** 2) & (k2 < radii[b + 1] ** 2)
                exp[b, 0] = int((sel * mult[None, None, :]).sum())
            if d['api'] == 'kmu':
                out = call_repo(ps.bin_kmu, n, L, radii, np.array([0.0, 1.0]), mesh, nthread=int(nt))
                got = np.asarray(out[1])
            else:
                field = np.ones((n, n, kz), dtype=np.complex64)
                r = call_repo(ps.calc_pk_from_deltak, field, L, radii, np.array([0.0, 1.0]), nthread=int(nt), squeeze_mu_axis=False)
                got = np.asarray(r['N_mode'])
        if got.dtype.kind not in 'iu':
            raise Violation('%s-count-not-integer' % d['api'], 'N_mode dtype %s' % got.dtype)
        if got.shape != exp.shape or not np.array_equal(got.astype(np.int64), exp):
            raise Violation('bigmesh-count-inexact', 'api=%s n=%d nthread=%d: N_mode %s, exact %s (bins of more than 2^24 modes must still be counted exactly)' % (d['api'], n, nt, got.ravel().tolist(), exp.ravel().tolist()))
        cls.append('bigmesh-nthread=%d' % nt)
    _evidence['modes_enumerated'] += n**3
    return dict(classes=cls)


def run_case(d):
    import numba

    from abacusnbody.analysis import power_spectrum as ps

    if d.get('mode') == 'bigmesh':
        return _run_bigmesh(d, ps)
    _check_desc(d)
    maxthr = int(numba.config.NUMBA_NUM_THREADS)
    if max(d['nthread'], d['nthread2']) > maxthr or min(d['nthread'], d['nthread2']) < 1:
        raise Reject('nthread above NUMBA_NUM_THREADS')
    api, n = d['api'], d['n']
    mesh, values, stored, scales = _build_mesh(d)
    kedges, ke_sq = _edges(d)
    nk = len(ke_sq) - 1

    if api == 'kppi':
        ny = int(d['npi'])
        # squared pi edges in mode units, from the documented definition: Npi equal bins from 0 to pimax
        y_sq = (np.arange(ny + 1) / float(ny)) ** 2 * ((_kunit(d) * float(np.sqrt(d['pimax_q']))) * _inv_kunit(d)) ** 2
    else:
        mu = np.asarray(d['mu'], dtype=np.float64)
        ny = len(mu) - 1
        y_sq = mu * mu

    mesh_copy = tuple(None if m is None else m.copy() for m in mesh) if isinstance(mesh, tuple) else mesh.copy()
    kedges_copy = kedges.copy()
    try:
        outA = _call(d, ps, mesh, kedges, d['nthread'])
        outB = _call(d, ps, mesh, kedges, d['nthread2'])
    except _Skip as e:
        return dict(classes=[str(e)], nontrivial=False)
    # inputs must not be modified
    same = all((a is None and b is None) or np.array_equal(a, b) for a, b in zip(mesh, mesh_copy)) if isinstance(mesh, tuple) else np.array_equal(mesh, mesh_copy)
    if not same or not np.array_equal(kedges, kedges_copy):
        raise Violation('%s-input-modified' % api, 'mesh or edges changed by the call')

    for out in (outA, outB):
        _shape_check(d, out, nk, ny)
    cA, cB = outA[1], outB[1]
    primary = _full(n, stored)
    if not np.array_equal(cA, cB) or (api != 'kppi' and not np.array_equal(outA[3], outB[3])):
        # Are only modes that sit on an edge (ties) involved?  Then every single table may still be admissible, but the
        # *direction* of the tie changed with the thread count -- reported under its own signature.
        if api == 'kppi':
            ref = modes.kppi_reference(primary, values, ke_sq, y_sq)
        else:
            ref = modes.kmu_reference(primary, values, ke_sq, y_sq, [], _kunit(d))
        tie_only = ref.n_ambiguous > 0 and bool(np.all(np.abs(cA - cB) <= (ref.hi - ref.lo)))
        raise Violation(
            SIG_TIE_NTHREAD if tie_only else SIG_NTHREAD,
            'api=%s n=%d prec=%s: N_mode with nthread=%d: %s, with nthread=%d: %s%s'
            % (api, n, d['prec'], d['nthread'], cA.tolist(), d['nthread2'], cB.tolist(), ' [only bins holding modes exactly on an edge differ: the side such a mode falls on depends on the thread count]' if tie_only else ''),
        )
    if api != 'kppi':
        for out in (outA, outB):
            _pole0_identity(d, out)

    _evidence['modes_enumerated'] += n**3
    ref0 = None
    for out, nt in ((outA, d['nthread']), (outB, d['nthread2'])):
        if api == 'kppi':

            def judge(model, out=out):
                return _judge_kppi(d, model, values, ke_sq, y_sq, out)
        else:

            def judge(model, out=out):
                return _judge_kmu(d, model, values, ke_sq, y_sq, out, scales)

        kind, detail, ref = judge(primary)
        ref0 = ref
        if kind is None:
            continue
        _attribute(d, judge, stored, kedges, kind, '%s [nthread=%d]' % (detail, nt))

    extra = []
    if ref0.n_ties:
        _evidence['cases_with_ties'] += 1
        _evidence['ambiguous_modes'] += ref0.n_ties
        extra.append('has-ties')
    else:
        extra.append('tie-free')
    if ref0.total_lo == 0:
        extra.append('range-empty')
    if n % 2 == 0 and ref0.total_lo > 0:
        h = n // 2
        # does the binned range reach the self-conjugate Nyquist plane?
        if api == 'kppi':
            reach = d['pimax_q'] > h * h
        else:
            reach = d['kq'][-1] > h * h
        extra.append('reaches-nyquist-plane' if reach else 'below-nyquist-plane')
    return dict(classes=extra)


def extra_evidence():
    return dict(_evidence)
