"""C03 — superslab concatenation and filter_func commute with loading.

Metamorphic/differential relations on synthetic catalogs (vt.gen.catalog), exact on halo rows and per-halo
particle slices:
  (i)  load([f1..fk]) == row-wise concatenation of load(fi), each halo's slice equal;
  (ii) load(filter_func=m) == rows m of the unfiltered load, slices equal AND re-indexed contiguously (A then B);
  duplicate / mixed-catalog file lists raise ValueError.
"""
import os
import shutil
import warnings

import numpy as np
from hypothesis import strategies as st

from vt.core import Reject, Violation
from vt.gen import catalog as G

ID = 'C03'
RULE = (
    'descriptor = synthetic catalog + file subset/order + per-superslab row masks (all-false, all-true, single row, random) expressed as a predicate on id, '
    'on N (threshold), or as a call-order closure + cleaned on/off + subsample selection + field subset + passthrough; '
    'non-trivial = (>=2 files with >=1 halo each) or (mask drops a halo that owns particles and keeps one after it, or keeps nothing); distinct = descriptor hash.'
)
ASSUMPTIONS = [
    'light-cone catalogs: only slice content under a filter is compared (their stored indices are not rewritten; the re-indexing clause does not list the LC layout)',
    'blosc codec replaced by the zlib stand-in for blsc fixtures',
]
INDEX_COLS = ('npstartA', 'npstartB', 'npoutA', 'npoutB')


def config(tier):
    if tier == 'quick':
        return dict(shards=16, examples=12, numba_threads=4, boundscheck=[False, True], soft_s=170, shrink_calls=25, shrink_max_sigs=1)
    return dict(shards=16, examples=160, numba_threads=4, boundscheck=[False, True], soft_s=1300, shrink_calls=120)


@st.composite
def _desc(draw, tier):
    layout = draw(st.sampled_from(['box', 'box', 'box', 'box', 'lc']))
    cat = draw(G.catalog_strategy(layouts=(layout,), max_slabs=3, max_halos=5))
    ns = len(cat['slabs'])
    o = {}
    if layout == 'lc':
        o['cleaned'] = True
        o['passthrough'] = False
        o['files'] = [0]
    else:
        o['passthrough'] = draw(st.sampled_from([False] * 7 + [True]))
        o['cleaned'] = True if o['passthrough'] else draw(st.booleans())
        o['files'] = draw(st.one_of(st.just(list(range(ns))), st.lists(st.integers(0, ns - 1), min_size=1, max_size=ns, unique=True)))
    if draw(st.sampled_from([True, True, True, False])):
        o['sub'] = {'AB': draw(st.sampled_from(['A', 'B', 'AB', 'AB'])), 'cols': draw(st.lists(st.sampled_from(['pos', 'vel', 'pid']), min_size=1, max_size=3, unique=True))}
    else:
        o['sub'] = None
    if o['passthrough']:
        o['fields'] = 'all'
        o['style'] = draw(st.sampled_from(['id', 'callorder']))
    elif layout == 'lc':
        o['fields'] = draw(st.sampled_from(['default', 'lcN']))
        o['style'] = draw(st.sampled_from(['N', 'callorder', 'value']))
    else:
        o['fields'] = draw(st.sampled_from(['idN', 'idN', 'id', 'N', 'noid', 'default', 'allfields', 'prog']))
        if o['fields'] == 'prog' and not o['cleaned']:
            o['fields'] = 'allfields'
        o['style'] = {'idN': draw(st.sampled_from(['id', 'N', 'positional', 'value'])), 'id': draw(st.sampled_from(['id', 'value'])), 'N': draw(st.sampled_from(['N', 'value'])), 'noid': draw(st.sampled_from(['callorder', 'positional', 'value'])),
                      'default': draw(st.sampled_from(['id', 'N', 'callorder', 'positional', 'value'])),
                      'allfields': draw(st.sampled_from(['id', 'N', 'callorder', 'value'])), 'prog': draw(st.sampled_from(['id', 'N']))}[o['fields']]
    masks = []
    for p in o['files']:
        nh = len(cat['slabs'][p]['halos'])
        kind = draw(st.sampled_from(['random', 'random', 'none', 'all', 'single']))
        if kind == 'none':
            m = [False] * nh
        elif kind == 'all':
            m = [True] * nh
        elif kind == 'single' and nh:
            k = draw(st.integers(0, nh - 1))
            m = [i == k for i in range(nh)]
        else:
            m = draw(st.lists(st.booleans(), min_size=nh, max_size=nh))
        masks.append(m)
    o['masks'] = masks
    o['thr_rank'] = draw(st.integers(0, 12))
    o['negative'] = draw(st.sampled_from([None, None, None, 'duplicate', 'mixed'])) if layout == 'box' else None
    return {'cat': cat, 'opts': o}


EXHAUSTIVE_NOTE = 'three fixed large catalogs (a superslab of 70001, 65537 resp. 140001 halos next to a small one) with a positional filter (every 2nd/3rd row of each superslab), an N threshold and a filter keeping 15 of every 16 rows (more than 2^17 survivors); workers run with 4 numba threads; not a complete enumeration of anything'


def exhaustive(tier, shard, nshards):
    spec = [{'A': [0, 1, 0, 0], 'B': [0, 0, 0, 0], 'gone': False}]
    items = []
    for k, (rep, style) in enumerate(((70001, 'positional'), (65537, 'N'), (140001, 'dropfew'))):
        cat = {'layout': 'box', 'box': 500.0, 'velz': 3200.0, 'ppd': 64, 'nprev': 1, 'compression': 'none', 'cleanlayout': 'std', 'int_header': False, 'seed': 77 + k,
               'slabs': [{'index': 0, 'halos': spec, 'repeat': rep, 'tailA': 0, 'tailB': 0}, {'index': 1, 'halos': spec * 3, 'tailA': 1, 'tailB': 0}]}
        o = {'cleaned': False, 'passthrough': False, 'files': [0, 1], 'sub': {'AB': 'A', 'cols': ['pid']}, 'fields': 'idN', 'style': style,
             'masks': [[], []], 'thr_rank': 1 + k, 'negative': None, 'big': True}
        items.append({'cat': cat, 'opts': o})
    for i, it in enumerate(items):
        if i % nshards == shard:
            yield it


def strategy(tier):
    return _desc(tier)


def _owned_counts(cat, o):
    """per loaded slab, per halo: does the halo own particles in the first loaded subsample?"""
    if not o['sub']:
        return [[False] * len(cat['slabs'][p]['halos']) for p in o['files']]
    X = o['sub']['AB'][0] if cat['layout'] != 'lc' else 'A'
    res = []
    for p in o['files']:
        rows = []
        for h in cat['slabs'][p]['halos']:
            gap, k, km, mg = h[X]
            if cat['layout'] != 'lc' and o['cleaned']:
                own = (0 if h['gone'] else k + km)
            else:
                own = k
            rows.append(own > 0)
        res.append(rows)
    return res


def nontrivial(d):
    cat, o = d['cat'], d['opts']
    counts = [len(cat['slabs'][p]['halos']) for p in o['files']]
    if sum(1 for c in counts if c >= 1) >= 2:
        return True
    if o['style'] in ('N', 'positional', 'value', 'dropfew'):
        return sum(counts) >= 2
    flatm = [m for ms in o['masks'] for m in ms]
    flato = [x for xs in _owned_counts(cat, o) for x in xs]
    if flatm and not any(flatm):
        return True
    for i, (m, own) in enumerate(zip(flatm, flato)):
        if not m and own and any(flatm[i + 1 :]):
            return True
    return False


def classes(d):
    cat, o = d['cat'], d['opts']
    c = ['layout=' + cat['layout'], 'cleaned=%s' % o['cleaned'], 'style=' + o['style'], 'fields=' + o['fields'], 'nfiles=%d' % len(o['files']), 'sub=' + ('none' if not o['sub'] else o['sub']['AB'])]
    flatm = [m for ms in o['masks'] for m in ms]
    if o.get('big'):
        c.append('large-superslab')
    if o['style'] not in ('N', 'positional', 'value', 'dropfew'):
        c.append('mask=' + ('empty-table' if not flatm else 'keep-none' if not any(flatm) else 'keep-all' if all(flatm) else 'partial'))
    if o['passthrough']:
        c.append('passthrough')
    if o['negative']:
        c.append('negative=' + o['negative'])
    if any(len(cat['slabs'][p]['halos']) == 0 for p in o['files']):
        c.append('empty-slab')
    return c


def _same(a, b):
    a = np.asarray(a)
    b = np.asarray(b)
    if a.shape != b.shape or a.dtype != b.dtype:
        return False
    if a.dtype.kind == 'f':
        return bool(np.array_equal(a, b, equal_nan=True))
    return bool(np.array_equal(a, b))


def run_case(d):
    from abacusnbody.data.compaso_halo_catalog import CompaSOHaloCatalog

    root = G.scratch_root('c03')
    cat = G.build(d['cat'], root)
    try:
        return _check(cat, d['cat'], d['opts'], CompaSOHaloCatalog)
    finally:
        G.destroy(cat)


def _fields(o, lc):
    f = o['fields']
    if f in ('all', 'allfields'):
        return 'all'
    if f == 'prog':
        return ['id', 'N', 'N_mainprog', 'v_L2com_mainprog', 'sigmav3d_L2com_mainprog', 'haloindex']
    if f == 'default':
        return 'DEFAULT_FIELDS'
    if f == 'lcN':
        return ['N', 'npstartA', 'npoutA', 'x_L2com']
    return {'idN': ['id', 'N', 'x_com'], 'id': ['id', 'r50_com'], 'N': ['N', 'v_com'], 'noid': ['x_L2com', 'sigmavMid_com']}[f]


def _load(CompaSOHaloCatalog, path, o, lc, filter_func=None):
    kw = dict(cleaned=bool(o['cleaned']), fields=_fields(o, lc), passthrough=bool(o['passthrough']))
    if o['sub']:
        if o['passthrough']:
            s = {k: True for k in o['sub']['AB']}
            s['rvint'] = True
            s['packedpid'] = True
        else:
            s = {k: True for k in o['sub']['AB']}
            for c in ('pos', 'vel', 'pid'):
                s[c] = c in o['sub']['cols']
        kw['subsamples'] = s
    if filter_func is not None:
        kw['filter_func'] = filter_func
    with warnings.catch_warnings():
        warnings.simplefilter('ignore')
        try:
            return CompaSOHaloCatalog(path, **kw)
        except Violation:
            raise
        except Exception as e:
            import traceback

            tb = traceback.extract_tb(e.__traceback__)
            where = [f.name for f in tb if 'abacusnbody' in f.filename]
            raise Violation('load-raised:%s:%s%s' % (type(e).__name__, where[-1] if where else '?', ':filtered' if filter_func is not None else ''), 'CompaSOHaloCatalog(%r, filter=%s, %r) raised %s: %s' % (path if isinstance(path, str) else [os.path.basename(str(p)) for p in path], filter_func is not None, {k: v for k, v in kw.items() if k != 'filter_func'}, type(e).__name__, str(e)[:400]))


def _slices(c, ABs, lc):
    """list over halo rows of dict col -> concatenated slice content (A then B)"""
    H, S = c.halos, c.subsamples
    out = []
    cols = list(S.colnames)
    for h in range(len(H)):
        rec = {}
        for X in ABs:
            a, k = int(H['npstart' + X][h]), int(H['npout' + X][h])
            for col in cols:
                rec[(X, col)] = np.asarray(S[col][a : a + k])
        out.append(rec)
    return out


def _check_contiguous(c, ABs, what):
    H = c.halos
    run = 0
    for X in ABs:
        nps = np.asarray(H['npstart' + X]).astype(np.int64)
        npo = np.asarray(H['npout' + X]).astype(np.int64)
        for h in range(len(H)):
            if nps[h] != run:
                raise Violation('reindex-not-contiguous', '%s: subsample %s row %d npstart=%d expected %d' % (what, X, h, nps[h], run))
            run += npo[h]
    if run != len(c.subsamples):
        raise Violation('reindex-length', '%s: slice lengths sum to %d but subsample table has %d rows' % (what, run, len(c.subsamples)))


def _compare_rows(cf, rows_f, cu, rows_u, what, skip):
    if sorted(cf.halos.colnames) != sorted(cu.halos.colnames):
        raise Violation('column-set-differs', '%s: columns %s vs %s' % (what, sorted(cf.halos.colnames), sorted(cu.halos.colnames)))
    for col in cf.halos.colnames:
        if col in skip:
            continue
        a = np.asarray(cf.halos[col])[rows_f]
        b = np.asarray(cu.halos[col])[rows_u]
        if not _same(a, b):
            raise Violation('halo-rows-differ', '%s: column %s differs' % (what, col))


def _compare_slices(sf, su, what):
    if len(sf) != len(su):
        raise Violation('halo-row-count', '%s: %d vs %d rows' % (what, len(sf), len(su)))
    for h, (a, b) in enumerate(zip(sf, su)):
        if sorted(map(str, a)) != sorted(map(str, b)):
            raise Violation('subsample-columns-differ', what)
        for key in a:
            if not _same(a[key], b[key]):
                raise Violation('particle-slice-differs', '%s: halo row %d, %s/%s: %d vs %d particles or different content' % (what, h, key[0], key[1], len(a[key]), len(b[key])))


def _check(cat, cdesc, o, CompaSOHaloCatalog):
    lc = cat.lc
    files = G.halo_info_files(cat)
    sel = [files[i] for i in o['files']]
    ABs = [] if not o['sub'] else (['A'] if lc else list(o['sub']['AB']))
    skip = set(INDEX_COLS) if (ABs and not lc) else set()

    # negative paths
    if o['negative'] == 'duplicate':
        try:
            with warnings.catch_warnings():
                warnings.simplefilter('ignore')
                CompaSOHaloCatalog(sel + [sel[0]], cleaned=bool(o['cleaned']), fields=['N'])
        except ValueError:
            pass
        except Exception as e:
            raise Violation('duplicate-files-wrong-error', '%s: %s' % (type(e).__name__, e))
        else:
            raise Violation('duplicate-files-accepted', 'a list with a duplicate halo_info file was loaded without error')
    elif o['negative'] == 'mixed':
        other = os.path.join(cat.root, 'Sim2', 'halos', 'z0.500', 'halo_info')
        os.makedirs(other, exist_ok=True)
        dst = os.path.join(other, os.path.basename(sel[0]))
        shutil.copy(sel[0], dst)
        try:
            with warnings.catch_warnings():
                warnings.simplefilter('ignore')
                CompaSOHaloCatalog(sel + [dst], cleaned=False, fields=['N'])
        except ValueError:
            pass
        except Exception as e:
            raise Violation('mixed-catalogs-wrong-error', '%s: %s' % (type(e).__name__, e))
        else:
            raise Violation('mixed-catalogs-accepted', 'files from two catalogs were loaded without error')

    path = sel if not lc else cat.groupdir
    if not lc and o['files'] == list(range(len(files))) and len(o['masks']) % 2 == 0:
        path = cat.groupdir  # the directory form
    if not lc and isinstance(path, str) and len(files) >= 2 and not o['passthrough']:
        # a history in one process: the directory is first loaded while its last superslab is not there yet, then again
        # once it is. Each load must reflect the directory as it is at that moment.
        hidden = files[-1] + '.not-yet'
        os.rename(files[-1], hidden)
        try:
            c_before = _load(CompaSOHaloCatalog, path, o, lc)
        finally:
            os.rename(hidden, files[-1])
        n_before = sum(S.n for S in cat.slabs[:-1])
        if len(c_before.halos) != n_before:
            raise Violation('directory-load-row-count', 'directory with %d of %d superslabs present: %d rows, expected %d' % (len(files) - 1, len(files), len(c_before.halos), n_before))
    cu = _load(CompaSOHaloCatalog, path, o, lc)
    nexp = sum(cat.slabs[p].n for p in o['files'])
    if len(cu.halos) != nexp:
        raise Violation('halo-row-count', 'unfiltered load has %d rows, files hold %d (the directory listing may be stale)' % (len(cu.halos), nexp))
    su = _slices(cu, ABs, lc) if ABs else None
    if ABs and not lc:
        _check_contiguous(cu, ABs, 'unfiltered load')

    # (i) concatenation of per-file loads
    if not lc and len(sel) >= 1:
        start = 0
        for p, fn in zip(o['files'], sel):
            c1 = _load(CompaSOHaloCatalog, fn, o, lc)
            n1 = len(c1.halos)
            if n1 != cat.slabs[p].n:
                raise Violation('halo-row-count', 'single-file load of %s has %d rows, file holds %d' % (os.path.basename(fn), n1, cat.slabs[p].n))
            _compare_rows(cu, np.arange(start, start + n1), c1, np.arange(n1), 'concatenation vs single file %s' % os.path.basename(fn), skip)
            if ABs:
                _compare_slices(su[start : start + n1], _slices(c1, ABs, lc), 'concatenation vs single file %s' % os.path.basename(fn))
            start += n1

    # (ii) filter
    style = o['style']
    offs = np.cumsum([0] + [cat.slabs[p].n for p in o['files']])
    if style == 'N':
        Ncol = np.asarray(cu.halos['N']).astype(np.int64)
        if len(Ncol):
            srt = np.sort(Ncol)
            thr = int(srt[min(o['thr_rank'], len(srt) - 1)]) + (1 if o['thr_rank'] % 5 == 4 else 0)
        else:
            thr = 1
        expmask = Ncol >= thr

        def ff(h):
            return h['N'] >= thr
    elif style == 'id':
        ids = np.asarray(cu.halos['id'])
        flat = np.array([m for ms in o['masks'] for m in ms], dtype=bool)
        keep = ids[flat] if len(flat) else ids[:0]
        expmask = flat

        def ff(h):
            return np.isin(np.asarray(h['id']), keep)
    elif style == 'value':
        # a cut on the magnitude of a unit-converted column (a sub-volume, a radius or a velocity cut): the filter must see the
        # values the table will hold, so that it keeps exactly the rows the same cut keeps on the unfiltered load
        cand = [c for c in ('x_com', 'x_L2com', 'r50_com', 'r100_com', 'v_com', 'r100_L2com', 'SO_radius', 'sigmav3d_com', 'vcirc_max_com') if c in cu.halos.colnames]
        if not cand:
            raise Reject('no unit-converted column among the requested fields')
        vcol = cand[o['thr_rank'] % len(cand)]

        def scal(h):
            a = np.asarray(h[vcol], dtype=np.float64)
            return a[:, (o['thr_rank'] // 3) % 3] if a.ndim == 2 else a

        sv = scal(cu.halos)
        thr = float(np.sort(sv)[min(o['thr_rank'], len(sv) - 1)]) if len(sv) else 0.0
        expmask = sv >= thr

        def ff(h):
            return scal(h) >= thr
    elif style == 'dropfew':
        # keeps 15 of every 16 rows of each superslab (a large superslab keeps more than 2^17 rows, with dropped rows ahead of survivors)
        expmask = np.concatenate([np.arange(cat.slabs[p].n) % 16 != 3 for p in o['files']]) if o['files'] else np.zeros(0, bool)

        def ff(h):
            return np.arange(len(h)) % 16 != 3
    elif style == 'positional':
        # a filter that depends on the position of a row within its superslab (like "every third halo" or a per-superslab
        # quantile): it must be applied to each superslab as a whole
        mod = 2 + o['thr_rank'] % 3
        expmask = np.concatenate([np.arange(cat.slabs[p].n) % mod == 0 for p in o['files']]) if o['files'] else np.zeros(0, bool)

        def ff(h):
            return np.arange(len(h)) % mod == 0
    else:
        calls = {'k': 0}
        masks = [np.array(m, dtype=bool) for m in o['masks']]
        expmask = np.concatenate(masks) if masks else np.zeros(0, bool)

        def ff(h):
            k = calls['k']
            # an implementation may or may not call the filter for an empty superslab: both are fine
            while k < len(masks) and len(masks[k]) == 0 and len(h) != 0:
                k += 1
            if k >= len(masks) or len(masks[k]) != len(h):
                raise Violation('filter-sees-wrong-rows', 'filter call received %d rows; the superslabs not yet filtered have %s rows' % (len(h), [len(m) for m in masks[calls['k']:]][:6]))
            calls['k'] = k + 1
            return masks[k]

    cf = _load(CompaSOHaloCatalog, path, o, lc, filter_func=ff)
    keep_rows = np.flatnonzero(expmask)
    if len(cf.halos) != len(keep_rows):
        raise Violation('filter-row-count', 'filtered load has %d rows, mask keeps %d of %d' % (len(cf.halos), len(keep_rows), len(expmask)))
    _compare_rows(cf, np.arange(len(cf.halos)), cu, keep_rows, 'filtered vs masked unfiltered', skip)
    if ABs:
        sf = _slices(cf, ABs, lc)
        _compare_slices(sf, [su[i] for i in keep_rows], 'filtered vs masked unfiltered')
        if not lc:
            _check_contiguous(cf, ABs, 'filtered load')
    return None
