"""C01 — each halo row indexes exactly its own subsample particles.

Generator: synthetic catalogs (vt.gen.catalog: 1-4 superslabs, 0-6 halos per slab, L0 gaps,
zero-particle halos, cleaned-away halos, merged ranges, box and light-cone layouts) x loader options.
Oracle: the catalog model (records each halo must own, computed from the descriptor, never from the
reader) + reference decoders written from the documented bit layouts.
"""
import os
import warnings

import numpy as np
from hypothesis import strategies as st

from vt.core import Violation
from vt.gen import catalog as G

ID = 'C01'
RULE = (
    'Hypothesis descriptor = synthetic catalog (slabs/halos/gaps/merges/cleaned-away flags, payload seed) + loader options '
    '(cleaned, A/B/AB, pos/vel/pid subset, unpack_bits, passthrough, path form, file subset/order, light-cone layout); '
    'non-trivial = >=2 halos own particles AND one of: L0 gap>0 between owned ranges, zero-particle halo between non-empty ones, '
    'cleaned-away halo with original particles, merged range, >=2 superslabs, an empty superslab; distinct = descriptor hash.'
)
ASSUMPTIONS = [
    'blosc codec replaced by the zlib stand-in (/verif/shims/blosc.py) for blsc-compressed fixtures',
    'particle ranges within a file are increasing and disjoint, as the format produces them',
    'float outputs compared with the reference decoders to 1 ulp(float32) (lagr_pos: relative to |idx*Box/ppd|+Box/2)',
    'a cleaned-away halo (N_total==0) has no merged-in particles of its own',
]
PID_FIELDS = ['pid', 'lagr_pos', 'tagged', 'density', 'lagr_idx', 'packedpid']


def config(tier):
    if tier == 'quick':
        return dict(shards=16, examples=22, numba_threads=1, boundscheck=[False, True], soft_s=150, shrink_calls=40)
    return dict(shards=16, examples=450, numba_threads=1, boundscheck=[False, True], soft_s=1300, shrink_calls=150)


@st.composite
def _opts(draw, layout, nslab):
    o = {}
    if layout == 'lc':
        o['cleaned'] = True
        o['passthrough'] = False
        o['AB'] = draw(st.sampled_from(['A', 'AB']))
    else:
        o['passthrough'] = draw(st.sampled_from([False, False, False, False, True]))
        o['cleaned'] = True if o['passthrough'] else draw(st.booleans())
        o['AB'] = draw(st.sampled_from(['A', 'B', 'AB', 'AB']))
    o['sub_true'] = draw(st.sampled_from([False, False, True]))
    cols = draw(st.lists(st.sampled_from(['pos', 'vel', 'pid']), min_size=1, max_size=3, unique=True))
    o['cols'] = cols
    o['rv_shorthand'] = bool('pos' in cols and 'vel' in cols and draw(st.booleans()))
    ub = draw(st.one_of(st.just(False), st.just(True), st.sampled_from(PID_FIELDS), st.lists(st.sampled_from(PID_FIELDS), min_size=1, max_size=6, unique=True)))
    o['unpack_bits'] = False if o['passthrough'] else ub
    if layout == 'lc':
        o['pathform'] = draw(st.sampled_from(['dir', 'single']))
        o['files'] = [0]
    else:
        o['pathform'] = draw(st.sampled_from(['dir', 'dir', 'halo_info_dir', 'single', 'list', 'list']))
        if o['pathform'] == 'single':
            o['files'] = [draw(st.integers(0, nslab - 1))]
        elif o['pathform'] == 'list':
            o['files'] = draw(st.lists(st.integers(0, nslab - 1), min_size=1, max_size=nslab, unique=True))
        else:
            o['files'] = list(range(nslab))
    o['fields'] = 'all' if o['passthrough'] else draw(st.sampled_from(['id', 'id', 'id', 'default', 'all', 'N']))
    o['cleandir_arg'] = draw(st.sampled_from([False, False, True]))
    o['dict_order'] = draw(st.sampled_from(['AB-first', 'AB-first', 'B-before-A', 'cols-first']))  # key order of the subsamples dict must not matter  # pass cleandir= explicitly instead of auto-detection
    return o


@st.composite
def _desc(draw, tier):
    cat = draw(G.catalog_strategy(layouts=('box', 'box', 'box', 'box', 'lc'), max_slabs=4 if tier == 'thorough' else 3, max_halos=6))
    opts = draw(_opts(cat['layout'], len(cat['slabs'])))
    return {'cat': cat, 'opts': opts}


def strategy(tier):
    return _desc(tier)


def _owned(cat, o):
    """per loaded slab: list of (orig counts, merged counts, gone, gaps) per halo for the first loaded subsample"""
    X = o['AB'][0]
    out = []
    for p in o['files']:
        sl = cat['slabs'][p]
        rows = []
        for h in sl['halos']:
            gap, k, km, mg = h[X]
            gone = bool(h['gone']) and o['cleaned'] and cat['layout'] != 'lc'
            km = km if (o['cleaned'] and cat['layout'] != 'lc' and not h['gone']) else 0
            rows.append((0 if gone else k, km, gone, gap, k))
        out.append(rows)
    return out


def nontrivial(d):
    cat, o = d['cat'], d['opts']
    ow = _owned(cat, o)
    flat = [r for rows in ow for r in rows]
    owners = [r for r in flat if r[0] + r[1] > 0]
    if len(owners) < 2:
        return False
    gap = any(r[3] > 0 and r[0] > 0 for r in flat[1:])
    zero_between = any(flat[i][0] + flat[i][1] == 0 and any(x[0] + x[1] > 0 for x in flat[:i]) and any(x[0] + x[1] > 0 for x in flat[i + 1 :]) for i in range(len(flat)))
    gone_with = any(r[2] and r[4] > 0 for r in flat)
    merged = any(r[1] > 0 for r in flat)
    multi = len(o['files']) >= 2
    empty_slab = any(len(rows) == 0 for rows in ow)
    return gap or zero_between or gone_with or merged or multi or empty_slab


def classes(d):
    cat, o = d['cat'], d['opts']
    c = ['layout=' + cat['layout'], 'cleanlayout=' + cat.get('cleanlayout', 'std'), 'cleaned=%s' % o['cleaned'], 'AB=' + o['AB'], 'path=' + o['pathform'], 'compression=' + cat['compression'], 'fields=' + o['fields']]
    if o['passthrough']:
        c.append('passthrough')
    ow = _owned(cat, o)
    flat = [r for rows in ow for r in rows]
    if any(r[2] and r[4] > 0 for r in flat):
        c.append('cleaned-away-with-particles')
    if any(r[1] > 0 for r in flat):
        c.append('merged-range')
    if any(len(rows) == 0 for rows in ow):
        c.append('empty-slab')
    if any(r[3] > 0 for r in flat):
        c.append('L0-gap')
    if not flat:
        c.append('no-halos')
    ub = o['unpack_bits']
    c.append('unpack_bits=' + ('list' if isinstance(ub, list) else str(ub) if isinstance(ub, bool) else 'str'))
    return c


# reference decoders (documented layouts, DESIGN 3.3)


def ref_pos(rv, box):
    return (np.floor_divide(rv.astype(np.int64), 4096).astype(np.float64) * (box / 1e6)).astype(np.float32)


def ref_vel(rv):
    return ((np.mod(rv.astype(np.int64), 4096) - 2048).astype(np.float64) * (6000.0 / 2048)).astype(np.float32)


def ref_aux(pp, box, ppd):
    pp = pp.astype(np.uint64)
    ix = (pp & np.uint64(0x7FFF)).astype(np.int64)
    iy = ((pp >> np.uint64(16)) & np.uint64(0x7FFF)).astype(np.int64)
    iz = ((pp >> np.uint64(32)) & np.uint64(0x7FFF)).astype(np.int64)
    idx = np.stack([ix, iy, iz], axis=1)
    return {
        'pid': (ix + (iy << 16) + (iz << 32)).astype(np.int64),
        'lagr_idx': idx.astype(np.int16),
        'lagr_pos': idx.astype(np.float64) * (box / ppd) - box / 2,
        'lagr_scale': np.abs(idx.astype(np.float64) * (box / ppd)) + box / 2,
        'tagged': ((pp >> np.uint64(48)) & np.uint64(1)).astype(np.uint8),
        'density': (((pp >> np.uint64(49)) & np.uint64(0x3FF)).astype(np.float64) ** 2).astype(np.float32),
        'packedpid': pp,
    }


def _close32(got, exp, scale=None):
    got = np.asarray(got, dtype=np.float64)
    exp = np.asarray(exp, dtype=np.float64)
    if got.shape != exp.shape:
        return False
    sc = np.abs(exp) if scale is None else np.asarray(scale, dtype=np.float64).reshape(-1, *([1] * (exp.ndim - 1))) * np.ones_like(exp)
    tol = 1.5 * np.finfo(np.float32).eps * sc + 1e-30
    return bool(np.all(np.abs(got - exp) <= tol))


def run_case(d):
    from abacusnbody.data.compaso_halo_catalog import CompaSOHaloCatalog

    # a process that reads catalogs commonly has the particle reader and the HOD preparation imported as well (hod/prepare_sim imports
    # both): importing a sibling module must not change what the catalog reader returns (module-level state such as
    # bitpacked.PID_FIELDS is shared between them)
    import abacusnbody.data.read_abacus  # noqa: F401

    from vt import env

    env.register_asdf()
    cdesc, o = d['cat'], d['opts']
    root = G.scratch_root('c01')
    cat = G.build(cdesc, root)
    try:
        return _check(cat, cdesc, o, CompaSOHaloCatalog)
    finally:
        G.destroy(cat)


def _path_arg(cat, o):
    files = G.halo_info_files(cat)
    pf = o['pathform']
    if pf == 'dir':
        return cat.groupdir
    if pf == 'halo_info_dir':
        return os.path.join(cat.groupdir, 'halo_info')
    if pf == 'single':
        return files[o['files'][0]]
    return [files[i] for i in o['files']]


def _sub_arg(o, lc):
    if o['sub_true']:
        return True
    if o['passthrough']:
        s = {k: True for k in o['AB']}
        s['rvint'] = True
        s['packedpid'] = True
        if o.get('dict_order') == 'B-before-A':
            s = {k: s[k] for k in sorted(s, key=lambda k: {'B': 0, 'A': 1}.get(k, 2))}
        return s
    s = {k: True for k in o['AB']}
    cols = list(o['cols'])
    if o['rv_shorthand']:
        s['rv'] = True
        cols = [c for c in cols if c not in ('pos', 'vel')]
    for c in ('pos', 'vel', 'pid'):
        if c in cols:
            s[c] = True
        elif not o['rv_shorthand'] or c == 'pid':
            s[c] = False
    order = o.get('dict_order', 'AB-first')
    if order == 'B-before-A':
        s = {k: s[k] for k in sorted(s, key=lambda k: {'B': 0, 'A': 1}.get(k, 2))}
    elif order == 'cols-first':
        s = {k: s[k] for k in sorted(s, key=lambda k: {'A': 2, 'B': 3}.get(k, 1))}
    return s


def _check(cat, cdesc, o, CompaSOHaloCatalog):
    lc = cat.lc
    box, ppd = float(cdesc['box']), int(cdesc['ppd'])
    cleaned = bool(o['cleaned'])
    sub = _sub_arg(o, lc)
    fields = {'id': ['id'], 'N': ['N'], 'default': 'DEFAULT_FIELDS', 'all': 'all'}[o['fields']]
    if lc and o['fields'] in ('id', 'N'):
        fields = ['N', 'npstartA', 'npoutA']  # 'id' is not a light-cone column; LC keeps the stored index columns
    kw = dict(cleaned=cleaned, subsamples=sub, fields=fields, unpack_bits=o['unpack_bits'], passthrough=bool(o['passthrough']))
    if o.get('cleandir_arg') and cleaned and not lc:
        kw['cleandir'] = cat.cleandir
    with warnings.catch_warnings():
        warnings.simplefilter('ignore')
        try:
            c = CompaSOHaloCatalog(_path_arg(cat, o), **kw)
        except Exception as e:
            import traceback

            tb = traceback.extract_tb(e.__traceback__)
            where = [f.name for f in tb if 'abacusnbody' in f.filename]
            raise Violation('load-raised:%s:%s' % (type(e).__name__, where[-1] if where else '?'), 'CompaSOHaloCatalog(%r) raised %s: %s' % (kw, type(e).__name__, str(e)[:500]))

    # which subsample columns / tables are expected
    if o['sub_true']:
        ABs = ['A'] if lc else ['A', 'B']
        cols = ['rvint', 'packedpid'] if o['passthrough'] else ['pos', 'vel', 'pid']
    else:
        ABs = ['A'] if lc else list(o['AB'])
        cols = ['rvint', 'packedpid'] if o['passthrough'] else list(o['cols'])
    exp_cols = [x for x in cols if x in ('pos', 'vel', 'rvint')]
    ub = o['unpack_bits']
    if lc:
        ub = False
    if 'pid' in cols or 'packedpid' in cols:
        if ub is False:
            exp_cols += ['packedpid' if 'packedpid' in cols else 'pid']
        elif ub is True:
            exp_cols += PID_FIELDS
        else:
            exp_cols += [ub] if isinstance(ub, str) else list(ub)
    got_cols = list(c.subsamples.colnames)
    if lc and 'pid' in cols and o['unpack_bits'] not in (False,):
        pass
    if sorted(set(got_cols)) != sorted(set(exp_cols)):
        raise Violation('subsample-column-set', 'subsample columns %s, expected %s for %r' % (sorted(got_cols), sorted(set(exp_cols)), kw))

    # expected halo rows
    rows = []  # (slab_pos, row)
    for p in o['files']:
        rows += [(p, r) for r in range(cat.slabs[p].n)]
    H = c.halos
    if len(H) != len(rows):
        raise Violation('halo-row-count', 'got %d halo rows, expected %d' % (len(H), len(rows)))
    if 'id' in H.colnames:
        exp_ids = np.array([cat.slabs[p].raw['id'][r] for p, r in rows], dtype=np.uint64)
        if not np.array_equal(np.asarray(H['id']), exp_ids):
            raise Violation('halo-id-order', 'halo ids are not the file-order concatenation')
    nsub = len(c.subsamples)
    for col in c.subsamples.colnames:
        if len(c.subsamples[col]) != nsub:
            raise Violation('subsample-ragged', 'column %s has length %d != %d' % (col, len(c.subsamples[col]), nsub))

    S = {col: np.asarray(c.subsamples[col]) for col in c.subsamples.colnames}
    running = 0
    total_expected = 0
    for X in ABs:
        try:
            nps = np.asarray(H['npstart' + X]).astype(np.int64)
            npo = np.asarray(H['npout' + X]).astype(np.int64)
        except KeyError:
            raise Violation('index-columns-missing', 'npstart%s/npout%s not in halo table' % (X, X))
        for h, (p, r) in enumerate(rows):
            if lc:
                Sl = cat.slabs[p]
                a, k = int(Sl.raw['npstartA'][r]), int(Sl.raw['npoutA'][r])
                if nps[h] != a or npo[h] != k:
                    raise Violation('lc-index-changed', 'row %d: (%d,%d) stored (%d,%d)' % (h, nps[h], npo[h], a, k))
                for col in S:
                    if col in Sl.lcpart and not np.array_equal(S[col][a : a + k], Sl.lcpart[col][a : a + k]):
                        raise Violation('lc-slice-content', 'row %d col %s' % (h, col))
                continue
            rv, pp = G.model_particles(cat, p, r, X, cleaned)
            k = len(rv)
            total_expected += k
            if npo[h] != k:
                raise Violation('slice-length', 'subsample %s row %d (slab pos %d row %d): npout=%d, the halo owns %d records (cleaned=%s)' % (X, h, p, r, npo[h], k, cleaned))
            if nps[h] != running:
                raise Violation('slice-not-contiguous', 'subsample %s row %d: npstart=%d expected %d (A before B, row order, no gaps)' % (X, h, nps[h], running))
            a = running
            running += k
            if a + k > nsub:
                raise Violation('slice-beyond-table', 'row %d slice [%d,%d) beyond %d' % (h, a, a + k, nsub))
            if k == 0:
                continue
            aux = ref_aux(pp, box, ppd)
            for col, arr in S.items():
                g = arr[a : a + k]
                if col == 'rvint':
                    ok = np.array_equal(g, rv)
                elif col == 'pos':
                    ok = _close32(g, ref_pos(rv, box))
                elif col == 'vel':
                    ok = _close32(g, ref_vel(rv))
                elif col in ('pid', 'lagr_idx', 'tagged', 'packedpid'):
                    ok = np.array_equal(g.astype(aux[col].dtype), aux[col]) and g.shape == aux[col].shape
                elif col == 'density':
                    ok = _close32(g, aux['density'])
                elif col == 'lagr_pos':
                    ok = _close32(g, aux['lagr_pos'], scale=aux['lagr_scale'].max(axis=1))
                else:
                    raise Violation('subsample-unknown-column', col)
                if not ok:
                    raise Violation('slice-content:' + ('raw' if col in ('rvint', 'packedpid') else 'decoded'), 'subsample %s, halo row %d (slab pos %d row %d), column %s: slice [%d,%d) is not this halo\'s records (cleaned=%s, opts=%r)' % (X, h, p, r, col, a, a + k, cleaned, o))
    if not lc:
        if running != nsub or total_expected != nsub:
            raise Violation('slice-lengths-sum', 'slice lengths sum to %d, subsample table has %d rows' % (running, nsub))
    return None
