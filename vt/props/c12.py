"""C12 - HOD staging keeps every per-halo attribute on the same row.

Generator: a set of halo+particle *subsample* files exactly as `AbacusHOD.staging()` reads them
(vt/gen/hod_files.py: one `halo_info_*.asdf` header per slab or `lc_halo_info.asdf`, and per slab the h5
datasets `halos` / `particles` with prepare_sim's dtypes) for 1..6 slabs x 0..15 halos per slab x 0..40 particles
per slab, halo ids increasing / decreasing (block-wise or fully) / interleaved / shuffled across the slab files
(duplicate-free; small, dense or Abacus-sized ~1e12..1e15), every per-halo attribute an injective function of the
id's rank in its own value band; option flags want_AB, want_shear, want_ranks (with every subset of the optional
rank fields), want_expvel, tracer set / force_mt (selects the `_MT` file names), halo_lc, primary / secondary
redshift (secondary: no particle files), chunk/n_chunks (every chunk that owns >= 1 slab, and -1), legacy 1-D
velocity deviates, decoy files under the *other* file-name variants.

Oracle: a reference table keyed by halo id, built from the descriptor (never read back from disk).  After
`AbacusHOD(sim_params, HOD_params, clustering_params, chunk, n_chunks)`:
  * the set of `hid` is exactly the ids of the slabs the chunk owns (nothing dropped, nothing invented), strictly increasing;
  * for every row r, every per-halo array (hpos, hvel, hmass = N*Mpart, hmultis, hrandoms, hveldev, hsigma3d,
    hc = r98/r25 (float32 division as stored), hrvir = r98, hdeltac, hfenv, hshear) equals the record of id hid[r];
  * particle arrays are the concatenation of the owned slabs' particle tables in file order (ppos, pvel, phvel, phmass,
    phid, prandoms, pdeltac, pfenv, pshear, pranks*; pweights = 1/Np/downsample), and 0 <= pinds < nhalo with
    hid[pinds] == phid for every particle.
Values are copies (float32 -> float64 is exact), so equality is exact, except pweights (two float64 divisions:
relative 4 eps allowed).
"""
import itertools
import os
import shutil
import tempfile
import zlib

import numpy as np
from hypothesis import strategies as st

from vt.core import Reject, Violation, dumps
from vt.gen import hod_files as hf

ID = 'C12'
RULE = (
    'Hypothesis descriptors (halos per slab, particles per slab, id order across slabs, id scale, flags, tracer set, '
    'z type, chunk/n_chunks, fill seed) -> subsample files written to scratch; non-trivial = the owned slabs hold >= 2 halos '
    'whose ids are NOT already ascending in file order (the re-sort path runs); distinct = descriptor hash.'
)
ASSUMPTIONS = [
    'import-only stand-ins for parallel_numpy_rng / Corrfunc (never called by staging); real h5py, asdf, numpy',
    'reference = arrays as constructed from the descriptor; numpy argsort/equality trusted',
    'chunk c of n_chunks owns slabs [c*ceil(n/n_chunks), min((c+1)*ceil(n/n_chunks), n)) (the documented split); chunks owning no slab are not generated',
    'the owned slabs hold >= 1 halo (AbacusHOD.__init__ takes min/max of the masses afterwards)',
    'numpy.histogramdd (called by AbacusHOD.__init__ after staging returned; 100^4 bins, 800 MB) is stubbed in the check process except for descriptors with real_hist=true (about 1 in 150)',
]

_gc_tick = itertools.count()
_extra = {'constructions': 0, 'resort_cases': 0, 'halo_rows_compared': 0, 'particle_rows_compared': 0}


def config(tier):
    if tier == 'quick':
        return dict(shards=6, examples=400, numba_threads=4, boundscheck=False, shrink_calls=60, soft_s=85)  # 4 numba threads: _searchsorted_parallel really runs in parallel blocks
    return dict(shards=12, examples=2000, numba_threads=4, boundscheck=[False, False, True], shrink_calls=300, soft_s=800)


def extra_evidence():
    return dict(_extra)


# --------------------------------------------------------------------------- strategy


@st.composite
def _desc(draw):
    halo_lc = draw(st.sampled_from([False] * 7 + [True]))
    if halo_lc:
        ns = 1
        z = draw(st.sampled_from(hf.PRIMARY_Z + hf.SECONDARY_Z + [0.3]))
    else:
        ns = draw(st.sampled_from([1, 2, 2, 3, 3, 3, 4, 4, 5, 6]))
        z = draw(st.sampled_from(hf.PRIMARY_Z * 3 + hf.SECONDARY_Z))
    small = draw(st.booleans())
    hmax = 4 if small else 15
    nh = draw(st.lists(st.one_of(st.integers(1, hmax), st.sampled_from([0, 1, 2, hmax])), min_size=ns, max_size=ns))
    npart = draw(st.lists(st.one_of(st.integers(0, 40), st.sampled_from([0, 1])), min_size=ns, max_size=ns))
    n_chunks = draw(st.sampled_from([1, 1, 1, 1, 1, 2, 2, 3, 4]))
    if halo_lc:
        n_chunks = draw(st.sampled_from([1, 1, 2]))
    cands = hf.valid_chunks(ns, n_chunks)
    # keep only chunks that own at least one halo
    cands = [c for c in cands if sum(nh[slice(*hf.chunk_range(ns, c, n_chunks))]) >= 1]
    if not cands:
        # make the first slab non-empty: chunk 0 then owns >= 1 halo
        nh[0] = max(nh[0], 1)
        cands = [0]
    chunk = draw(st.sampled_from(cands + ([-1] if 0 in cands else [])))
    order = draw(st.sampled_from([o for o in hf.ORDERS if o != 'increasing'] * 2 + ['increasing']))
    perm = draw(st.permutations(list(range(sum(nh))))) if order == 'explicit' else None
    tracers = draw(st.sampled_from([
        {'LRG': True, 'ELG': False, 'QSO': False},
        {'LRG': True},
        {'LRG': True, 'ELG': True, 'QSO': False},
        {'LRG': False, 'ELG': True, 'QSO': False},
        {'LRG': False, 'ELG': False, 'QSO': True},
        {'LRG': True, 'ELG': True, 'QSO': True},
        {'ELG': True},
    ]))
    want_ranks = draw(st.booleans())
    rank_fields = draw(st.sampled_from([
        ['ranksp', 'ranksr', 'ranksc'], ['ranksp', 'ranksr', 'ranksc'], [], ['ranksp'], ['ranksr'], ['ranksc'], ['ranksp', 'ranksr'], ['ranksr', 'ranksc'], ['ranksp', 'ranksc'],
    ])) if want_ranks else []
    d = dict(
        nh=nh,
        np=npart,
        order=order,
        id_scale=draw(st.sampled_from(['small', 'dense', 'abacus', 'abacus'])),
        id_base=draw(st.sampled_from([0, 0, 1, 10**12, 123456789012345])),
        id_dtype=draw(st.sampled_from(['<u8', '<u8', '<i8'])),
        z_mock=z,
        halo_lc=halo_lc,
        tracers=tracers,
        force_mt=draw(st.sampled_from([False, False, False, True])),
        want_ranks=want_ranks,
        rank_fields=rank_fields,
        want_AB=draw(st.booleans()),
        want_shear=draw(st.booleans()),
        want_expvel=draw(st.booleans()),
        want_rsd=draw(st.booleans()),
        omit_false_flags=draw(st.booleans()),
        veldev_1d=draw(st.sampled_from([False] * 7 + [True])),
        grouped=draw(st.booleans()),
        decoys=draw(st.sampled_from([False, False, True])),
        clustering=draw(st.booleans()),
        chunk=chunk,
        n_chunks=n_chunks,
        mpart_ix=draw(st.integers(0, 2)),
        box_ix=draw(st.integers(0, 2)),
        fill_seed=draw(st.integers(0, 2**31 - 1)),
    )
    if perm is not None:
        d['perm'] = list(perm)
    # un-stubbed numpy.histogramdd in the constructor (see _cheap_histogramdd) for ~1 descriptor in 150; chosen by a
    # hash of the descriptor (Hypothesis over-samples the end points of any range, and such a case costs 1.7 s / 800 MB)
    if zlib.crc32(dumps(d).encode()) % 150 == 0:
        d['real_hist'] = True
    return d


def strategy(tier):
    return _desc()


EXHAUSTIVE_NOTE = {
    'quick': 'every arrangement of H = 2..4 distinct halo ids over slab files: all H! file orders x all 2^(H-1) splits of the file-order sequence into non-empty consecutive slabs (220 cases), all flags on, 3 particles per slab, no chunking',
    'thorough': 'every arrangement of H = 2..5 distinct halo ids over slab files: all H! file orders x all 2^(H-1) splits into non-empty consecutive slabs (2140 cases), all flags on, 3 particles per slab, no chunking',
}


def _compositions(n):
    if n == 0:
        yield []
        return
    for first in range(1, n + 1):
        for rest in _compositions(n - first):
            yield [first] + rest


def exhaustive(tier, shard, nshards):
    hmax = 4 if tier == 'quick' else 5
    i = 0
    for Hn in range(2, hmax + 1):
        for comp in _compositions(Hn):
            for perm in itertools.permutations(range(Hn)):
                i += 1
                if i % nshards != shard:
                    continue
                yield dict(
                    nh=list(comp), np=[3] * len(comp), order='explicit', perm=list(perm), id_scale='small', id_base=0, id_dtype='<u8',
                    z_mock=0.5, halo_lc=False, tracers={'LRG': True, 'ELG': False, 'QSO': False}, force_mt=False,
                    want_ranks=True, rank_fields=['ranksp', 'ranksr', 'ranksc'], want_AB=True, want_shear=True, want_expvel=bool(i % 2),
                    want_rsd=True, omit_false_flags=False, veldev_1d=False, grouped=True, decoys=False, clustering=False,
                    chunk=-1, n_chunks=1, mpart_ix=0, box_ix=0, fill_seed=i,
                )


# --------------------------------------------------------------------------- descriptor facts


def _validate(d):
    nh, npart = d.get('nh'), d.get('np')
    if not isinstance(nh, list) or not isinstance(npart, list) or len(nh) != len(npart) or not (1 <= len(nh) <= 8):
        raise Reject('bad slab lists')
    if any((not isinstance(n, int)) or n < 0 or n > 64 for n in nh) or any((not isinstance(n, int)) or n < 0 or n > 200 for n in npart):
        raise Reject('bad counts')
    if d['order'] not in hf.ORDERS:
        raise Reject('bad order')
    if d['order'] == 'explicit' and sorted(d.get('perm', [])) != list(range(sum(nh))):
        raise Reject('perm is not a permutation')
    if d.get('halo_lc') and len(nh) != 1:
        raise Reject('light cone has one file')
    z = float(d['z_mock'])
    if not d.get('halo_lc') and z not in hf.PRIMARY_Z + hf.SECONDARY_Z:
        raise Reject('redshift not in the generated list')
    if not any(d['tracers'].values()):
        raise Reject('no tracer enabled')
    nc, c = int(d['n_chunks']), int(d['chunk'])
    if nc < 1 or c < -1 or c >= nc:
        raise Reject('chunk outside [-1, n_chunks)')
    start, end = hf.chunk_range(len(nh), c, nc)
    if start >= len(nh):
        raise Reject('chunk owns no slab')
    if sum(nh[start:end]) < 1:
        raise Reject('chunk owns no halo')
    return start, end


def _file_order_ids(d):
    start, end = hf.chunk_range(len(d['nh']), int(d['chunk']), int(d['n_chunks']))
    ids, assign, _ = hf.plan(d)
    keys = [k for a in assign[start:end] for k in a]
    return keys, assign[start:end]


def nontrivial(d):
    try:
        _validate(d)
    except Reject:
        return False
    keys, _ = _file_order_ids(d)
    return len(keys) >= 2 and any(a > b for a, b in zip(keys, keys[1:]))


def classes(d):
    try:
        start, end = _validate(d)
    except Reject:
        return ['rejected']
    keys, per = _file_order_ids(d)
    c = ['order=' + d['order'], 'slabs=%d' % len(d['nh']), 'owned-slabs=%d' % (end - start)]
    unsorted = any(a > b for a, b in zip(keys, keys[1:]))
    c.append('resort' if unsorted else 'already-sorted')
    if unsorted and all(all(a < b for a, b in zip(p, p[1:])) for p in per):
        c.append('resort:across-slabs-only')
    if unsorted and len(per) == 1:
        c.append('resort:within-one-slab')
    c.append('chunking=none' if (d['n_chunks'] == 1) else 'chunking=%d' % d['n_chunks'])
    if d['chunk'] == -1:
        c.append('chunk=-1')
    primary = d.get('halo_lc') or float(d['z_mock']) in hf.PRIMARY_Z
    c.append('z=lightcone' if d.get('halo_lc') else ('z=primary' if primary else 'z=secondary(no particles)'))
    for f in ('want_AB', 'want_shear', 'want_ranks', 'want_expvel'):
        if d[f]:
            c.append(f)
    if d['want_ranks']:
        c.append('optional-rank-fields=%d' % len(d.get('rank_fields', [])))
    c.append('files=_MT' if hf.uses_mt(d) else 'files=plain')
    if d.get('veldev_1d'):
        c.append('veldev-1d')
    if d.get('decoys'):
        c.append('decoy-files')
    if any(n == 0 for n in d['nh'][start:end]):
        c.append('empty-slab-owned')
    if primary and sum(p for p, h in zip(d['np'][start:end], d['nh'][start:end]) if h) == 0:
        c.append('no-particles')
    c.append('ids=' + d.get('id_scale', 'small'))
    if d.get('real_hist'):
        c.append('real-histogramdd')
    return c


# --------------------------------------------------------------------------- the check


_root = {}


def _scratch():
    """One directory tree per process, reused between cases (files are removed after every case)."""
    if 'dir' not in _root:
        base = os.environ.get('VERIF_SCRATCH')
        if base:
            os.makedirs(base, exist_ok=True)
            _root['dir'] = tempfile.mkdtemp(prefix='c12-', dir=base)
        else:
            import atexit

            os.makedirs('/verif/.work', exist_ok=True)
            _root['dir'] = tempfile.mkdtemp(prefix='c12-', dir='/verif/.work')
            atexit.register(shutil.rmtree, _root['dir'], True)
    return _root['dir']


class _cheap_histogramdd:
    """AbacusHOD.__init__ finishes (after staging) by binning the halo masses into 100^3- and 100^4-bin
    numpy.histogramdd tables: 800 MB and ~1.1 s per construction, none of which C12 observes.  While the
    constructor runs, numpy.histogramdd is replaced *in this process* by a stub that returns an empty table
    with the right number of axes; staging() and everything it returns are untouched (the histogram is computed
    from copies after staging returned).  Descriptors with real_hist=true (generated rarely) run the real one."""

    def __init__(self, active):
        self.active = active

    def __enter__(self):
        if self.active:
            self.orig = np.histogramdd

            def histogramdd(sample, bins=10, range=None, density=None, weights=None):
                nd = np.asarray(sample).shape[1]
                return np.zeros((1,) * nd), list(bins)

            np.histogramdd = histogramdd
        return self

    def __exit__(self, *a):
        if self.active:
            np.histogramdd = self.orig
        return False


def _first_bad(got, exp, rtol=0.0):
    got = np.asarray(got)
    exp = np.asarray(exp)
    if got.shape != exp.shape:
        return 'shape %r, expected %r' % (got.shape, exp.shape)
    if rtol:
        bad = ~(np.abs(got - exp) <= rtol * np.abs(exp))
    else:
        bad = got != exp  # NaN never generated
    if bad.ndim > 1:
        bad = bad.any(axis=tuple(range(1, bad.ndim)))
    w = np.flatnonzero(bad)
    if len(w) == 0:
        return None
    r = int(w[0])
    return 'row %d of %d (%d rows differ): got %r expected %r' % (r, len(exp), len(w), np.asarray(got[r]).tolist(), np.asarray(exp[r]).tolist())


def run_case(d):
    start, end = _validate(d)
    root = _scratch()
    try:
        return _run(d, root, start, end)
    finally:
        if next(_gc_tick) % 64 == 63:
            import gc

            gc.collect()  # staging leaves its asdf handle to the collector
        hf.remove_files(root)


def _run(d, root, start, end):
    from abacusnbody.hod.abacus_hod import AbacusHOD

    fx = hf.build(d, root)
    try:
        with _cheap_histogramdd(not d.get('real_hist')):
            ball = AbacusHOD(fx.sim_params, fx.HOD_params, fx.clustering_params, chunk=int(d['chunk']), n_chunks=int(d['n_chunks']))
    except (KeyboardInterrupt, MemoryError):
        raise
    except BaseException as e:
        import traceback

        tb = traceback.extract_tb(e.__traceback__)
        where = [f for f in tb if f.filename.endswith('abacus_hod.py')]
        loc = '%s:%d' % (where[-1].name, where[-1].lineno) if where else '?'
        raise Violation('staging-raised:%s:%s' % (type(e).__name__, where[-1].name if where else '?'), '%s: %s (at %s)' % (type(e).__name__, str(e)[:600], loc))
    _extra['constructions'] += 1
    H, P = ball.halo_data, ball.particle_data

    # ---- reference (from the descriptor) ----
    ht = np.concatenate(fx.halo_tables[start:end])  # file order
    pt = np.concatenate(fx.part_tables[start:end]) if fx.primary else fx.part_tables[0][:0]
    nh, npt = len(ht), len(pt)
    ref_ids = ht['id'].astype(np.int64)
    row_of = {int(i): r for r, i in enumerate(ref_ids)}
    assert len(row_of) == nh  # duplicate-free by construction
    file_sorted = bool(np.all(ref_ids[:-1] <= ref_ids[1:]))
    if not file_sorted:
        _extra['resort_cases'] += 1

    need_h = ['hpos', 'hvel', 'hmass', 'hid', 'hmultis', 'hrandoms', 'hveldev', 'hsigma3d', 'hc', 'hrvir']
    if d['want_AB']:
        need_h += ['hdeltac', 'hfenv']
    if d['want_shear']:
        need_h += ['hshear']
    need_p = ['ppos', 'pvel', 'phvel', 'phmass', 'phid', 'pweights', 'prandoms', 'pinds', 'pranks', 'pranksv', 'pranksp', 'pranksr', 'pranksc']
    if d['want_AB']:
        need_p += ['pdeltac', 'pfenv']
    if d['want_shear']:
        need_p += ['pshear']
    miss = [k for k in need_h if k not in H] + [k for k in need_p if k not in P]
    if miss:
        raise Violation('staging-missing-key', 'missing %r' % miss)

    # ---- halo set and order ----
    hid = np.asarray(H['hid'])
    if hid.shape != (nh,):
        raise Violation('staging-halo-set-wrong', 'hid shape %r, expected %d halos from slabs [%d,%d)' % (hid.shape, nh, start, end))
    got_ids = [int(v) for v in hid]
    if sorted(got_ids) != sorted(row_of):
        lost = sorted(set(row_of) - set(got_ids))[:5]
        inv = sorted(set(got_ids) - set(row_of))[:5]
        raise Violation('staging-halo-set-wrong', 'ids dropped %r / invented %r / duplicated=%s (slabs [%d,%d))' % (lost, inv, len(set(got_ids)) != len(got_ids), start, end))
    if not all(a < b for a, b in zip(got_ids, got_ids[1:])):
        raise Violation('staging-hid-not-increasing', 'hid = %r' % got_ids[:40])

    # ---- every per-halo column against the record of the id stored in that row ----
    rows = np.array([row_of[i] for i in got_ids], dtype=np.int64)
    R = ht[rows]
    vd_name = 'randoms_exp' if d['want_expvel'] else 'randoms_gaus_vrms'

    def veldev(tab):
        v = tab[vd_name]
        return np.stack([v, v, v], axis=1) if v.ndim == 1 else v  # 1-D legacy files: 'using z randoms instead' for x and y

    def columns(tab):
        e = {
            'hpos': tab['x_L2com'].astype(np.float64),
            'hvel': tab['v_L2com'].astype(np.float64),
            'hmass': tab['N'] * fx.Mpart,
            'hmultis': tab['multi_halos'],
            'hrandoms': tab['randoms'],
            'hveldev': veldev(tab).astype(np.float64),
            'hsigma3d': tab['sigmav3d_L2com'].astype(np.float64),
            'hc': (tab['r98_L2com'] / tab['r25_L2com']).astype(np.float64),
            'hrvir': tab['r98_L2com'].astype(np.float64),
        }
        if d['want_AB']:
            e['hdeltac'] = tab['deltac_rank']
            e['hfenv'] = tab['fenv_rank']
        if d['want_shear']:
            e['hshear'] = tab['shear_rank']
        return e

    exp = columns(R)
    unsorted_exp = columns(ht)
    _extra['halo_rows_compared'] += nh
    bad = {}
    for k, e in exp.items():
        msg = _first_bad(H[k], e)
        if msg:
            bad[k] = msg
    deferred = None

    def in_file_order(k):  # '' or a remark: the column was left exactly as concatenated from the files
        same = (not file_sorted) and _first_bad(H[k], unsorted_exp[k]) is None
        return ' (it is still in file order, i.e. it was left out of the sort by id)' if same else ''

    if bad:
        ctx = 'order=%s slabs[%d,%d) nh=%r flags(AB=%s,shear=%s,expvel=%s)' % (d['order'], start, end, d['nh'], d['want_AB'], d['want_shear'], d['want_expvel'])
        # (1) anything that is not one of the two separately tracked root causes is reported first
        others = [k for k in bad if k not in ('hc', 'hrvir', 'hveldev')]
        if others:
            k = sorted(others)[0]
            raise Violation('staging-halo-%s-misaligned' % k, '%s does not describe the halo whose id is in the same row%s: %s; %s' % (k, in_file_order(k), bad[k], ctx))
        if 'hveldev' in bad:
            tiled = None
            if d.get('veldev_1d'):
                # what `np.concatenate((v, v, v)).reshape(-1, 3)` gives per slab (three copies laid end to end and cut
                # into rows of three), carried to the output row of each halo: the separately tracked root cause
                tiled = np.concatenate([np.concatenate((t[vd_name],) * 3).reshape(-1, 3) for t in fx.halo_tables[start:end]])[rows]
            if tiled is not None and _first_bad(H['hveldev'], tiled) is None:
                deferred = Violation('staging-veldev-1d-not-row-aligned', "1-D velocity deviates ('using z randoms instead'): hveldev row is not (v,v,v) of the halo in that row: %s; %s" % (bad['hveldev'], ctx))
            else:
                raise Violation('staging-halo-hveldev-misaligned', 'hveldev does not describe the halo whose id is in the same row%s: %s; %s' % (in_file_order('hveldev'), bad['hveldev'], ctx))
        if deferred is None:
            # only hc / hrvir are wrong
            fo = {k: bool(in_file_order(k)) for k in ('hc', 'hrvir') if k in bad}
            if len(fo) == 2 and all(fo.values()):
                deferred = Violation('staging-hc-hrvir-not-permuted', 'hc and hrvir are still in file order while hid and the other per-halo arrays were sorted by id: hc %s; hrvir %s; %s' % (bad['hc'], bad['hrvir'], ctx))
            else:
                k = sorted(fo)[0]
                raise Violation('staging-halo-%s-misaligned' % k, '%s does not describe the halo whose id is in the same row%s: %s; %s' % (k, in_file_order(k), bad[k], ctx))

    # ---- particles (checked even when a tracked halo-column finding is pending, so that it cannot hide them) ----
    _extra['particle_rows_compared'] += npt
    pexp = {
        'ppos': pt['pos'].astype(np.float64),
        'pvel': pt['vel'].astype(np.float64),
        'phvel': pt['halo_vel'],
        'phmass': pt['halo_mass'],
        'phid': pt['halo_id'],
        'prandoms': pt['randoms'],
    }
    if d['want_AB']:
        pexp['pdeltac'] = pt['halo_deltac']
        pexp['pfenv'] = pt['halo_fenv']
    if d['want_shear']:
        pexp['pshear'] = pt['halo_shear']
    for out, fld in (('pranks', 'ranks'), ('pranksv', 'ranksv'), ('pranksp', 'ranksp'), ('pranksr', 'ranksr'), ('pranksc', 'ranksc')):
        if d['want_ranks']:
            pexp[out] = pt[fld] if fld in fx.rank_fields else np.zeros(npt)
        else:
            pexp[out] = np.ones(npt)
    for k, e in pexp.items():
        msg = _first_bad(P[k], e)
        if msg:
            raise Violation('staging-particle-%s-mismatch' % k, '%s is not the owned slabs\' particle table in file order: %s (slabs [%d,%d), np=%r, want_ranks=%s fields=%r)' % (k, msg, start, end, d['np'], d['want_ranks'], fx.rank_fields))
    msg = _first_bad(P['pweights'], 1.0 / pt['Np'] / pt['downsample_halo'], rtol=4 * np.finfo(np.float64).eps)
    if msg:
        raise Violation('staging-particle-pweights-mismatch', 'pweights != 1/Np/downsample_halo: %s' % msg)
    pinds = np.asarray(P['pinds'])
    if pinds.shape != (npt,) or pinds.dtype.kind not in 'iu':
        raise Violation('staging-pinds-shape', 'pinds shape %r dtype %s, expected (%d,) integer' % (pinds.shape, pinds.dtype, npt))
    if npt:
        if pinds.min() < 0 or pinds.max() >= nh:
            raise Violation('staging-pinds-wrong-host', 'host index outside the halo table: pinds in [%d,%d], %d halos' % (pinds.min(), pinds.max(), nh))
        host = hid[pinds]
        w = np.flatnonzero(host != pt['halo_id'])
        if len(w):
            j = int(w[0])
            raise Violation('staging-pinds-wrong-host', 'particle %d records halo id %d but pinds=%d -> hid %d (%d of %d particles wrong)' % (j, pt['halo_id'][j], pinds[j], host[j], len(w), npt))

    # ---- bookkeeping the later HOD steps rely on ----
    if ball.params.get('numslabs') != end - start:
        raise Violation('staging-numslabs', 'params[numslabs]=%r expected %d' % (ball.params.get('numslabs'), end - start))
    if ball.params.get('Mpart') != fx.Mpart:
        raise Violation('staging-mpart', 'params[Mpart]=%r expected %r' % (ball.params.get('Mpart'), fx.Mpart))

    if deferred is not None:
        raise deferred
    return None
