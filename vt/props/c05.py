"""C05 — halo statistics are unpacked into consistent physical units.

Oracle: the *stored* raw values of the synthetic catalog times the documented factor
(length-like x BoxSize, velocity-like x VelZSpace_to_kms, int16 ratios /32000 x the column they are relative to),
Pythagorean relation Min^2+Mid^2+Maj^2 = sigmav3d^2 compared in squares, convert_units on/off differing by exactly those
factors, integer/dimensionless columns unchanged.
"""
import re
import warnings

import numpy as np
from hypothesis import strategies as st

from vt.core import Violation
from vt.gen import catalog as G

ID = 'C05'
RULE = (
    'descriptor = synthetic catalog whose BoxSize and VelZSpace_to_kms are drawn independently over decades (equal only rarely), int16 ratios over the full '
    'range incl. extremes, r100/sigmav3d over decades + cleaned on/off + light-cone layout; both convert_units settings are loaded with fields="all"; '
    'non-trivial = BoxSize/VelZSpace_to_kms differs from 1 by >1% and at least one row has non-zero principal-dispersion ratios; distinct = descriptor hash.'
)
ASSUMPTIONS = [
    'float columns compared at rtol 6e-7 (a few float32 roundings) to the float64 product of the stored values; squares relation at rtol 1e-5 of sigmav3d^2',
    '*_mainprog velocity columns (documented as already physical) and light-cone interpolation columns are only required to be identical for convert on/off',
    'blosc codec replaced by the zlib stand-in for blsc fixtures',
]
I16 = 32000.0
RT = 6e-7

LEN_COLS = re.compile(r'(x|r100)_(L2)?com|SO(_L2max)?_(central_particle|radius)')
VEL_COLS = re.compile(r'(v|sigmav3d|meanSpeed|sigmav3d_r50|meanSpeed_r50|vcirc_max)_(L2)?com')
RATIO_R = re.compile(r'(?P<stem>r\d{1,2}|rvcirc_max)(?P<com>_(L2)?com)')
SIGV = re.compile(r'(?P<stem>sigmav(Min|Maj|rad|tan))(?P<com>_(L2)?com)')
SIGVMID = re.compile(r'sigmavMid(?P<com>_(L2)?com)')
SIGMAR = re.compile(r'sigmar(?P<com>_(L2)?com)')
SIGMAN = re.compile(r'sigman(?P<com>_(L2)?com)')
EIG = re.compile(r'sigma[rnv]_eigenvecs(Min|Mid|Maj)_(L2)?com')


def config(tier):
    if tier == 'quick':
        return dict(shards=16, examples=12, numba_threads=1, soft_s=150, shrink_calls=25, shrink_max_sigs=1)
    return dict(shards=16, examples=190, numba_threads=1, soft_s=1200, shrink_calls=100)


@st.composite
def _desc(draw, tier):
    layout = draw(st.sampled_from(['box', 'box', 'box', 'lc']))
    cat = draw(G.catalog_strategy(layouts=(layout,), max_slabs=2, max_halos=5))
    if sum(len(s['halos']) for s in cat['slabs']) == 0:
        cat['slabs'][0]['halos'] = [{'A': [0, 1, 0, 0], 'B': [0, 0, 0, 0], 'gone': False}]
    e1 = draw(st.floats(-1.0, 4.0))
    e2 = draw(st.floats(-1.0, 5.5))
    cat['box'] = float(np.float32(10.0**e1)) if draw(st.booleans()) else draw(st.sampled_from([1.0, 32.0, 500.0, 2000.0, 123.456]))
    cat['velz'] = float(10.0**e2) if draw(st.booleans()) else draw(st.sampled_from([1.0, 3200.0, 208774.9025637363, 0.37]))
    if draw(st.integers(0, 9)) == 0:
        cat['velz'] = cat['box']
    cleaned = True if layout == 'lc' else draw(st.booleans())
    return {'cat': cat, 'cleaned': cleaned}


def strategy(tier):
    return _desc(tier)


def nontrivial(d):
    r = d['cat']['box'] / d['cat']['velz']
    return abs(r - 1) > 0.01 and sum(len(s['halos']) for s in d['cat']['slabs']) > 0


def classes(d):
    r = d['cat']['box'] / d['cat']['velz']
    return ['layout=' + d['cat']['layout'], 'cleaned=%s' % d['cleaned'], 'box==velz' if r == 1 else ('box/velz>1' if r > 1 else 'box/velz<1')]


def _close(got, exp, rt=RT, scale=None):
    got = np.asarray(got, dtype=np.float64)
    exp = np.asarray(exp, dtype=np.float64)
    if got.shape != exp.shape:
        return False, 'shape %s vs %s' % (got.shape, exp.shape)
    sc = np.abs(exp) if scale is None else np.broadcast_to(np.asarray(scale, dtype=np.float64), exp.shape)
    bad = ~(np.abs(got - exp) <= rt * sc + 1e-37)
    bad &= ~(np.isnan(got) & np.isnan(exp))
    if bad.any():
        i = tuple(np.argwhere(bad)[0])
        return False, 'at %s: got %r expected %r (ratio %r)' % (list(map(int, i)), float(got[i]), float(exp[i]), float(got[i] / exp[i]) if exp[i] else None)
    return True, ''


def run_case(d):
    from abacusnbody.data.compaso_halo_catalog import CompaSOHaloCatalog

    root = G.scratch_root('c05')
    cat = G.build(d['cat'], root)
    try:
        return _check(cat, d, CompaSOHaloCatalog)
    finally:
        G.destroy(cat)


def _load(cat, CompaSOHaloCatalog, cleaned, convert):
    with warnings.catch_warnings():
        warnings.simplefilter('ignore')
        try:
            return CompaSOHaloCatalog(cat.groupdir, cleaned=cleaned, fields='all', convert_units=convert)
        except Exception as e:
            raise Violation('load-raised:%s' % type(e).__name__, 'fields="all" convert_units=%s cleaned=%s: %s: %s' % (convert, cleaned, type(e).__name__, str(e)[:300]))


def _raw(cat, name):
    return np.concatenate([S.raw[name] for S in cat.slabs]) if name in cat.slabs[0].raw else None


def _expected(cat, col, box, velz):
    """(expected float64 array, kind) from the stored values, or (None, kind) if only on/off identity is asserted."""
    R = lambda n: _raw(cat, n).astype(np.float64)  # noqa: E731
    m = RATIO_R.fullmatch(col)
    if m:
        return R(col + '_i16') / I16 * R('r100' + m['com']) * box, 'ratio-length'
    m = SIGV.fullmatch(col)
    if m:
        stem = m['stem'].replace('Maj', 'Max')
        return R(stem + '_to_sigmav3d' + m['com'] + '_i16') / I16 * R('sigmav3d' + m['com']) * velz, 'sigmav-principal'
    m = SIGVMID.fullmatch(col)
    if m:
        return None, 'sigmavMid'
    m = SIGMAR.fullmatch(col)
    if m:
        return R(col + '_i16') / I16 * R('r100' + m['com'])[:, None] * box, 'ratio-length'
    m = SIGMAN.fullmatch(col)
    if m:
        return R(col + '_i16') / I16 * box, 'ratio-length'
    if LEN_COLS.fullmatch(col):
        return R(col) * box, 'length'
    if VEL_COLS.fullmatch(col):
        return R(col) * velz, 'velocity'
    return None, 'other'


def _check(cat, d, CompaSOHaloCatalog):
    box, velz = float(d['cat']['box']), float(d['cat']['velz'])
    cleaned = bool(d['cleaned'])
    con = _load(cat, CompaSOHaloCatalog, cleaned, True)
    coff = _load(cat, CompaSOHaloCatalog, cleaned, False)
    n = sum(S.n for S in cat.slabs)
    if len(con.halos) != n or len(coff.halos) != n:
        raise Violation('row-count', '%d/%d rows, catalog has %d' % (len(con.halos), len(coff.halos), n))
    if sorted(con.halos.colnames) != sorted(coff.halos.colnames):
        raise Violation('column-set-depends-on-units', '')
    for col in con.halos.colnames:
        on = np.asarray(con.halos[col])
        off = np.asarray(coff.halos[col])
        exp_on, kind = _expected(cat, col, box, velz)
        exp_off, _ = _expected(cat, col, 1.0, 1.0)
        if kind in ('length', 'velocity', 'ratio-length', 'sigmav-principal'):
            ok, why = _close(on, exp_on)
            if not ok:
                raise Violation('wrong-units:' + kind, 'column %s with convert_units=True != stored value x documented factor (BoxSize=%r, VelZSpace_to_kms=%r): %s' % (col, box, velz, why))
            ok, why = _close(off, exp_off)
            if not ok:
                raise Violation('wrong-stored-units:' + kind, 'column %s with convert_units=False != stored value: %s' % (col, why))
            f = velz if kind in ('velocity', 'sigmav-principal') else box
            ok, why = _close(on, off.astype(np.float64) * f, rt=8 * np.finfo(np.float32).eps)
            if not ok:
                raise Violation('onoff-factor:' + kind, 'column %s: convert on != convert off x %r: %s' % (col, f, why))
        elif kind == 'sigmavMid':
            com = SIGVMID.fullmatch(col)['com']
            for c, unit, tag in ((con, velz, 'on'), (coff, 1.0, 'off')):
                mn = np.asarray(c.halos['sigmavMin' + com], dtype=np.float64)
                md = np.asarray(c.halos['sigmavMid' + com], dtype=np.float64)
                mj = np.asarray(c.halos['sigmavMaj' + com], dtype=np.float64)
                s3 = np.asarray(c.halos['sigmav3d' + com], dtype=np.float64)
                a = _raw(cat, 'sigmavMin_to_sigmav3d' + com + '_i16').astype(np.float64) / I16
                b = _raw(cat, 'sigmavMax_to_sigmav3d' + com + '_i16').astype(np.float64) / I16
                real = (a * a + b * b) <= 1.0 - 1e-4
                lhs = mn**2 + md**2 + mj**2
                rhs = s3**2
                bad = real & ~(np.abs(lhs - rhs) <= 1e-5 * rhs + 1e-37)
                if bad.any():
                    i = int(np.flatnonzero(bad)[0])
                    raise Violation('sigmav-principal-squares', 'convert %s, %s row %d: Min^2+Mid^2+Maj^2 = %r but sigmav3d^2 = %r (ratio %r; (BoxSize/VelZ)^2 = %r)' % (tag, com, i, lhs[i], rhs[i], lhs[i] / rhs[i], (box / velz) ** 2))
                # Mid itself, where well conditioned
                exp_mid = np.sqrt(np.maximum(1 - a * a - b * b, 0)) * _raw(cat, 'sigmav3d' + com).astype(np.float64) * unit
                wc = real & ((1 - a * a - b * b) > 0.05)
                ok, why = _close(md[wc], exp_mid[wc], rt=2e-5)
                if not ok:
                    raise Violation('wrong-units:sigmavMid', 'convert %s column %s: %s' % (tag, col, why))
        else:
            # integer / dimensionless / light-cone / main-progenitor columns: identical for on and off
            same = on.shape == off.shape and on.dtype == off.dtype and (np.array_equal(on, off, equal_nan=True) if on.dtype.kind == 'f' else np.array_equal(on, off))
            if not same:
                raise Violation('unitless-column-changed', 'column %s differs between convert_units=True and False' % col)
            raw = None
            name = col
            if col == 'N' and cleaned and not cat.lc:
                raw = np.concatenate([S.cleanraw['N_total'] for S in cat.slabs])
            elif col in cat.slabs[0].raw:
                raw = _raw(cat, col)
            elif col in cat.slabs[0].cleanraw and not cat.lc:
                raw = np.concatenate([S.cleanraw[col] for S in cat.slabs])
            if raw is not None and col != 'origin' and col not in ('pos_interp', 'vel_interp') and not EIG.fullmatch(col):
                if not (raw.shape == on.shape and np.array_equal(raw, on.astype(raw.dtype), equal_nan=(raw.dtype.kind == 'f'))):
                    raise Violation('unchanged-column-changed', 'column %s is not the stored column' % name)
            m = EIG.fullmatch(col)
            if m:
                # dimensionless unit vectors: the reader must hand out exactly the direct decoding of the stored 16-bit code
                # (the decoder itself is judged by C18), whichever of Min/Mid/Maj were requested
                from abacusnbody.data.compaso_halo_catalog import _unpack_euler16

                rnv, which, com = re.fullmatch(r'(sigma[rnv]_eigenvecs)(Min|Mid|Maj)(_(?:L2)?com)', col).groups()
                code = _raw(cat, rnv + com + '_u16')
                tri = _unpack_euler16(code)
                want = tri[{'Min': 0, 'Mid': 1, 'Maj': 2}[which]].astype(np.float32)
                if not (want.shape == on.shape and np.array_equal(want, on)):
                    raise Violation('eigenvector-column-not-direct-decoding', 'column %s differs from _unpack_euler16(%s)[%s]' % (col, rnv + com + '_u16', which))
    # the same columns requested as an explicit list with every derived column *before* the column it is relative to
    # (columns load in reverse request order, so the base columns are unpacked first): values must not depend on that
    bases = [c for c in con.halos.colnames if re.fullmatch(r'(r100|sigmav3d)_(L2)?com', c)]
    order = [c for c in con.halos.colnames if c not in bases] + bases
    with warnings.catch_warnings():
        warnings.simplefilter('ignore')
        try:
            c3 = CompaSOHaloCatalog(cat.groupdir, cleaned=cleaned, fields=order, convert_units=True)
        except Exception as e:
            raise Violation('load-raised:%s' % type(e).__name__, 'explicit field list (derived columns first): %s: %s' % (type(e).__name__, str(e)[:300]))
    for col in con.halos.colnames:
        if col not in c3.halos.colnames:
            raise Violation('column-missing-in-explicit-list', col)
        a, b = np.asarray(c3.halos[col]), np.asarray(con.halos[col])
        same = a.shape == b.shape and (np.array_equal(a, b, equal_nan=True) if a.dtype.kind == 'f' else np.array_equal(a, b))
        if not same:
            r = None
            try:
                with np.errstate(all='ignore'):
                    r = float(np.nanmedian(a.astype(np.float64) / b.astype(np.float64)))
            except Exception:
                pass
            raise Violation('units-depend-on-field-order', 'column %s requested in an explicit list (derived columns listed before %s) differs from the same column through fields="all" (median ratio %r; BoxSize=%r, VelZSpace_to_kms=%r)' % (col, bases[:2], r, box, velz))
    return None
