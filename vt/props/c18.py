"""C18 — every eigenvector code decodes to a distinct orthonormal triad.

Code under test: abacusnbody.data.compaso_halo_catalog._unpack_euler16 (called directly with the raw
uint16 column, as the catalog reader's eigvecs loader does).

Generator
  exhaustive (the whole finite domain, 65 340 codes = 12 caps x 121 in-cap cells x 45 azimuth bins):
    all-codes   one call with every code: orthonormality, handedness, pairwise distinctness (k-d tree)
    cap c       12 calls, one cap each: orthonormality, handedness, azimuth-group structure
    coverage    a regular grid on the three cube faces +x,+y,+z (directions up to sign), split in 4 quadrants
                per face: every grid direction must be within 4.0 deg of some decoded major axis up to sign;
                sup over the grid + the grid cell's angular radius is a *rigorous* bound for all directions
                and is reported in the evidence (quick: 256^2 per face, thorough: 1024^2).
  Hypothesis:
    dirs        unit directions (axes, face/body diagonals, cap seams x=y etc. by construction, +- jitter;
                random; plus a seeded bulk fill) for the coverage clause
    codes       small code lists, duplicates allowed, length 0/1 included: the triad of a code must not depend
                on what else is in the batch (compared with the all-codes call) and must be orthonormal/handed
Oracle (tolerances absolute, values are O(1) float64)
  | |v|-1 | <= 1e-12, pairwise dots <= 1e-12, |middle - minor x major| <= 1e-12
  no two of the 65 340 nine-component triads within 1e-6 (measured minimum on the tree: 0.054)
  codes differing only in azimuth share the major axis (<= 1e-12) and step the minor axis about it in one
  rotational sense; the 45 steps (incl. the wrap to -minor) sum to pi (1e-9) and each is within
  [0.98*c, 1.02/c] * pi/45, c = largest |component| of the major axis.  (DESIGN said +-10 %: that is not what
  the format does — the azimuth is uniform in the coordinate plane normal to the cap axis, and lifting it
  onto the plane normal to the major axis is a linear map with singular values 1 and 1/c, so steps range
  over [c, 1/c] * pi/45 = 0.6155..1.624 on the real tree.)
  coverage: angle to the nearest major axis up to sign <= 4.0 deg (measured sup 3.11 deg).
  loader      (enumerated) the observation point itself: a small synthetic catalog loaded with every selection/order of the
              Min/Mid/Maj columns of every (sigmar|sigman|sigmav, com|L2com): each column is the float32 image of the direct
              decoding of the stored codes and unit to 4e-7, whichever siblings were requested (C02 checks selection
              independence in general, C05 checks 'all' fields against the direct decoding).
"""
import numpy as np
from hypothesis import strategies as st

from vt.core import Reject, Violation, call_repo

ID = 'C18'
FULLY_EXHAUSTIVE = True  # the quantified domain (all 65340 valid codes) is finite and enumerated completely in both tiers
NCAP, NCELL, NAZ = 12, 121, 45
NCODES = NCAP * NCELL * NAZ  # 65340
COVER_DEG = 4.0
RULE = (
    'exhaustive bulk descriptors (all codes at once; one cap at a time; coverage grid quadrants) + Hypothesis descriptors '
    '(direction lists with a seeded fill; code lists). every case is non-trivial (all codes are distinct; directions/code lists are '
    'distinct by descriptor hash); the bulk cases cover the whole domain of 65340 codes.'
)
ASSUMPTIONS = [
    'scipy.spatial.cKDTree (real scipy from /verif/.deps) is trusted for the pairwise-distinctness query',
    'tolerances: 1e-12 for unit length / orthogonality / handedness / shared major axis; 1e-6 separation for distinctness; 4.0 degrees for coverage',
    'the azimuth-stepping bound [0.98*c, 1.02/c]*pi/45 (c = largest |component| of the major axis) is derived from the format geometry, not from the statement',
    'the catalog reader column loader is exercised on small synthetic catalogs (codes drawn by the fixture builder, not all 65340) for every selection of the three axes; the decoding of all codes is judged on the direct call',
]
EXHAUSTIVE_NOTE = {
    'quick': 'all 65340 valid codes (orthonormality, handedness, distinctness, azimuth groups); coverage grid 3 faces x 256^2 directions (rigorous sup bound = grid sup + 0.32 deg); 54 catalog-loader selections',
    'thorough': 'all 65340 valid codes (orthonormality, handedness, distinctness, azimuth groups); coverage grid 3 faces x 1024^2 directions (rigorous sup bound = grid sup + 0.08 deg); 54 catalog-loader selections',
}

_extra = {'codes_decoded': 0, 'directions_checked': 0}
_cache = {}


def extra_evidence():
    return dict(_extra)


def config(tier):
    if tier == 'quick':
        return dict(shards=4, examples=300, numba_threads=1, shrink_calls=100)
    return dict(shards=8, examples=2500, numba_threads=1, shrink_calls=300)


def _decode(codes):
    from abacusnbody.data.compaso_halo_catalog import _unpack_euler16

    codes = np.asarray(codes, dtype=np.uint16)
    keep = codes.copy()
    out = call_repo(_unpack_euler16, codes)
    if not np.array_equal(codes, keep):
        raise Violation('input-modified', '_unpack_euler16 changed its input')
    if not (isinstance(out, tuple) and len(out) == 3):
        raise Violation('euler-shape', 'expected (minor, middle, major), got %r' % (type(out),))
    for name, a in zip(('minor', 'middle', 'major'), out):
        if not isinstance(a, np.ndarray) or a.shape != (len(codes), 3):
            raise Violation('euler-shape', '%s has shape %r for %d codes' % (name, getattr(a, 'shape', None), len(codes)))
    _extra['codes_decoded'] += len(codes)
    return tuple(np.asarray(a, dtype=np.float64) for a in out)


def _all():
    """(minor, middle, major) of every code, decoded by the real code in one call (cached per process)."""
    if 'all' not in _cache:
        _cache['all'] = _decode(np.arange(NCODES, dtype=np.uint16))
    return _cache['all']


def _majors():
    if 'maj' not in _cache:
        maj = _all()[2]
        if not np.all(np.isfinite(maj)):
            raise Violation('euler-not-unit', 'non-finite major axes: %d codes' % int((~np.isfinite(maj).all(axis=1)).sum()))
        _cache['maj'] = np.unique(np.round(maj, 12), axis=0)  # ~1452 distinct axes
    return _cache['maj']


# --------------------------------------------------------------------------- exhaustive


def exhaustive(tier, shard, nshards):
    n = 256 if tier == 'quick' else 1024
    descs = [{'mode': 'all-codes'}]
    descs += [{'mode': 'cap', 'cap': c} for c in range(NCAP)]
    descs += [{'mode': 'coverage', 'face': f, 'quadrant': q, 'n': n} for f in range(3) for q in range(4)]
    # the halo columns themselves: every selection of the three axes for every (statistic, centre)
    k = 0
    for rnv in ('sigmar', 'sigman', 'sigmav'):
        for com in ('_com', '_L2com'):
            for sub in _SUBSETS:
                descs.append({'mode': 'loader', 'rnv': rnv, 'com': com, 'subset': sub, 'cat': k % 7, 'convert': k % 2 == 0})
                k += 1
    for i, d in enumerate(descs):
        if i % nshards == shard:
            yield d


# --------------------------------------------------------------------------- strategies

_SPECIAL_DIRS = []
for _a in (-1.0, 0.0, 1.0):
    for _b in (-1.0, 0.0, 1.0):
        for _c in (-1.0, 0.0, 1.0):
            if (_a, _b, _c) != (0.0, 0.0, 0.0):
                _SPECIAL_DIRS.append([_a, _b, _c])
_t = 0.41421356237309503  # tan(pi/8): the edge of a cap in the yy/zz parametrisation
_SPECIAL_DIRS += [[1.0, _t, 0.0], [1.0, 0.0, _t], [_t, 1.0, 0.0], [0.0, 1.0, _t], [_t, 0.0, 1.0], [0.0, _t, 1.0], [1.0, 1.0, _t], [1.0, _t, _t], [1.0, 1.0, 0.999], [1.0, 1e-9, -1e-9]]


@st.composite
def _dir(draw):
    kind = draw(st.sampled_from(['special', 'special', 'seam', 'random']))
    if kind == 'special':
        v = list(draw(st.sampled_from(_SPECIAL_DIRS)))
        j = draw(st.sampled_from([0.0, 1e-12, 1e-6, 1e-3, 0.03]))
        v = [v[i] + j * draw(st.sampled_from([-1.0, 0.0, 1.0])) for i in range(3)]
    elif kind == 'seam':
        a = draw(st.floats(-1, 1, allow_nan=False))
        b = draw(st.floats(-1, 1, allow_nan=False))
        v = draw(st.sampled_from([[a, a, b], [a, b, a], [b, a, a], [a, -a, b], [a, b, -a], [b, a, -a], [1.0, a, b], [a, 1.0, b], [a, b, 1.0]]))
    else:
        v = [draw(st.floats(-1, 1, allow_nan=False)) for _ in range(3)]
    if sum(x * x for x in v) < 1e-6:
        v = [1.0, 0.0, 0.0]
    return v


def strategy(tier):
    dirs = st.fixed_dictionaries({'mode': st.just('dirs'), 'dirs': st.lists(_dir(), min_size=1, max_size=8), 'fill_seed': st.integers(0, 2**32 - 1), 'nfill': st.sampled_from([0, 64, 64, 256])})
    code = st.one_of(st.sampled_from([0, 1, 44, 45, 46, NAZ * NCELL - 1, NAZ * NCELL, NCODES - 1, NCODES - 45, NCODES - 46, 5444, 5445, 32670]), st.integers(0, NCODES - 1))
    codes = st.fixed_dictionaries({'mode': st.just('codes'), 'codes': st.one_of(st.lists(code, min_size=0, max_size=12), st.lists(code, min_size=1, max_size=1))})
    return st.one_of(dirs, dirs, codes)


# --------------------------------------------------------------------------- bookkeeping


def nontrivial(d):
    return True


def classes(d):
    m = d['mode']
    c = ['mode=' + m]
    if m == 'cap':
        c.append('cap=%d' % d['cap'])
    elif m == 'codes':
        n = len(d['codes'])
        c.append('ncodes=%s' % (n if n < 2 else '2+'))
        for k in sorted({int(x) // (NAZ * NCELL) for x in d['codes']}):
            c.append('cap=%d' % k)
        if len(set(d['codes'])) < n:
            c.append('duplicate-codes')
    elif m == 'dirs':
        c.append('fill=%d' % d['nfill'])
    elif m == 'loader':
        c.append('subset=' + '+'.join(d['subset']))
    return c


# --------------------------------------------------------------------------- oracles


def _first(bad):
    return int(np.argwhere(bad)[0][0])


def _check_triads(codes, mi, md, ma, what):
    """Orthonormal + right-handed (middle = minor x major), every code."""
    T = 1e-12
    for name, a in (('minor', mi), ('middle', md), ('major', ma)):
        with np.errstate(invalid='ignore'):
            bad = ~(np.abs(np.sqrt((a * a).sum(axis=1)) - 1.0) <= T)
        if bad.any():
            i = _first(bad)
            raise Violation('euler-not-unit', '%s: %d codes with a non-unit %s axis; first code %d: %r' % (what, int(bad.sum()), name, int(codes[i]), a[i].tolist()))
    for (n1, a), (n2, b) in ((('minor', mi), ('major', ma)), (('minor', mi), ('middle', md)), (('middle', md), ('major', ma))):
        bad = ~(np.abs((a * b).sum(axis=1)) <= T)
        if bad.any():
            i = _first(bad)
            raise Violation('euler-not-orthogonal', '%s: %d codes with %s.%s != 0; first code %d: dot=%r' % (what, int(bad.sum()), n1, n2, int(codes[i]), float((a[i] * b[i]).sum())))
    cr = np.cross(mi, ma)
    bad = ~(np.abs(cr - md).max(axis=1) <= T)
    if bad.any():
        i = _first(bad)
        raise Violation('euler-handedness', '%s: %d codes with middle != minor x major; first code %d: middle=%r minor x major=%r' % (what, int(bad.sum()), int(codes[i]), md[i].tolist(), cr[i].tolist()))


def _check_groups(codes, mi, ma, what):
    """codes: whole azimuth groups (multiples of 45 consecutive codes)."""
    g = len(codes) // NAZ
    M = ma.reshape(g, NAZ, 3)
    bad = ~(np.abs(M - M[:, :1]).max(axis=(1, 2)) <= 1e-12)
    if bad.any():
        i = _first(bad)
        raise Violation('euler-azimuth-major-moves', '%s: codes %d..%d differ only in azimuth but have different major axes' % (what, int(codes[i * NAZ]), int(codes[i * NAZ + NAZ - 1])))
    maj = M[:, 0]
    mn = mi.reshape(g, NAZ, 3)
    nxt = np.concatenate([mn[:, 1:], -mn[:, :1]], axis=1)  # after the last bin the axis returns to -minor(first)
    s = (np.cross(mn, nxt) * maj[:, None, :]).sum(axis=2)
    c = (mn * nxt).sum(axis=2)
    ang = np.arctan2(s, c)  # signed rotation about the major axis
    sense = np.sign(ang[:, :1])
    cc = np.abs(maj).max(axis=1)[:, None]
    step = np.pi / NAZ
    r = ang * sense / step
    bad = ~((r >= 0.98 * cc) & (r <= 1.02 / cc))
    if bad.any():
        i, j = (int(x) for x in np.argwhere(bad)[0])
        raise Violation('euler-azimuth-step', '%s: minor axis step from code %d to the next azimuth bin is %.4f x pi/45 (allowed %.4f..%.4f, same sense throughout the group)' % (what, int(codes[i * NAZ + j]), float(r[i, j]), float(0.98 * cc[i, 0]), float(1.02 / cc[i, 0])))
    tot = np.abs(ang.sum(axis=1))
    bad = ~(np.abs(tot - np.pi) <= 1e-9)
    if bad.any():
        i = _first(bad)
        raise Violation('euler-azimuth-step', '%s: the 45 azimuth steps of codes %d.. sum to %r, not pi' % (what, int(codes[i * NAZ]), float(tot[i])))
    return int((sense > 0).sum()), g


def _check_distinct(mi, md, ma):
    from scipy.spatial import cKDTree

    T = np.concatenate([mi, md, ma], axis=1)
    tree = cKDTree(T)
    pairs = tree.query_pairs(1e-6, output_type='ndarray')
    if len(pairs):
        a, b = (int(x) for x in pairs[0])
        raise Violation('euler-codes-collide', '%d pairs of distinct codes decode to the same triad (within 1e-6); e.g. codes %d and %d -> major %r' % (len(pairs), a, b, ma[a].tolist()))
    d, _ = tree.query(T, k=2)
    return float(d[:, 1].min())


def _nearest_deg(P):
    """angle (deg) from each unit row of P to the nearest decoded major axis, up to sign."""
    maj = _majors()
    best = np.zeros(len(P))
    for i in range(0, len(P), 1 << 15):
        best[i : i + (1 << 15)] = np.abs(P[i : i + (1 << 15)] @ maj.T).max(axis=1)
    return np.degrees(np.arccos(np.clip(best, -1.0, 1.0)))


def _check_cover(P, what):
    ang = _nearest_deg(P)
    _extra['directions_checked'] += len(P)
    bad = ~(ang <= COVER_DEG)
    if bad.any():
        i = int(np.argmax(np.where(np.isnan(ang), np.inf, ang)))
        raise Violation('euler-coverage-hole', '%s: %d directions farther than %.1f deg from every decoded major axis (up to sign); worst %r at %.3f deg' % (what, int(bad.sum()), COVER_DEG, P[i].tolist(), float(ang[i])))
    return float(ang.max()) if len(ang) else 0.0


# --------------------------------------------------------------------------- entry


def run_case(d):
    m = d['mode']
    if m == 'all-codes':
        codes = np.arange(NCODES, dtype=np.uint16)
        mi, md, ma = _all()
        _check_triads(codes, mi, md, ma, 'all codes')
        _extra['min_triad_separation'] = _check_distinct(mi, md, ma)
        _extra['distinct_major_axes'] = int(len(_majors()))
    elif m == 'cap':
        c = int(d['cap'])
        if not 0 <= c < NCAP:
            raise Reject('cap')
        codes = np.arange(c * NCELL * NAZ, (c + 1) * NCELL * NAZ, dtype=np.uint16)
        mi, md, ma = _decode(codes)
        _check_triads(codes, mi, md, ma, 'cap %d' % c)
        pos, g = _check_groups(codes, mi, ma, 'cap %d' % c)
        _extra['azimuth_groups_checked'] = _extra.get('azimuth_groups_checked', 0) + g
        _extra['azimuth_groups_right_handed_sense'] = _extra.get('azimuth_groups_right_handed_sense', 0) + pos
    elif m == 'coverage':
        n, f, q = int(d['n']), int(d['face']), int(d['quadrant'])
        if not (2 <= n <= 4096 and n % 2 == 0 and 0 <= f < 3 and 0 <= q < 4):
            raise Reject('grid')
        u = (np.arange(n) + 0.5) / n * 2 - 1
        h = n // 2
        uu = u[:h] if q % 2 == 0 else u[h:]
        vv = u[:h] if q // 2 == 0 else u[h:]
        U, V = np.meshgrid(uu, vv, indexing='ij')
        P = np.stack([np.ones_like(U), U, V], axis=-1).reshape(-1, 3)
        P = np.roll(P, f, axis=1)
        P /= np.sqrt((P * P).sum(axis=1))[:, None]
        sup = _check_cover(P, 'grid face %d quadrant %d n=%d' % (f, q, n))
        _extra['coverage_sup_deg_face%d_q%d_incl_cell_radius' % (f, q)] = sup + float(np.degrees(np.arcsin(np.sqrt(2.0) / n)))
    elif m == 'dirs':
        P = np.array(d['dirs'], dtype=np.float64).reshape(-1, 3)
        if d['nfill']:
            g = np.random.Generator(np.random.PCG64(int(d['fill_seed']))).standard_normal((int(d['nfill']), 3))
            P = np.concatenate([P, g])
        nrm = np.sqrt((P * P).sum(axis=1))
        if np.any(nrm < 1e-6):
            raise Reject('zero direction')
        P = P / nrm[:, None]
        _check_cover(P, '%d directions' % len(P))
    elif m == 'codes':
        codes = np.array([int(c) for c in d['codes']], dtype=np.int64)
        if np.any(codes < 0) or np.any(codes >= NCODES):
            raise Reject('invalid code')
        codes = codes.astype(np.uint16)
        mi, md, ma = _decode(codes)
        if len(codes):
            _check_triads(codes, mi, md, ma, 'codes %s' % codes.tolist())
        A = _all()
        for name, a, full in zip(('minor', 'middle', 'major'), (mi, md, ma), A):
            bad = ~(np.abs(a - full[codes]).max(axis=1) <= 1e-12) if len(codes) else np.zeros(0, dtype=bool)
            if bad.any():
                i = _first(bad)
                raise Violation('euler-batch-dependent', 'code %d decodes to %s=%r in the batch %s but to %r in the batch of all codes' % (int(codes[i]), name, a[i].tolist(), codes.tolist(), full[codes[i]].tolist()))
    elif m == 'loader':
        _run_loader(d)
    else:
        raise Reject('unknown mode')
    return None


_SUBSETS = [['Min'], ['Mid'], ['Maj'], ['Min', 'Maj'], ['Maj', 'Min'], ['Min', 'Mid'], ['Mid', 'Maj'], ['Min', 'Mid', 'Maj'], ['Maj', 'Mid', 'Min']]


def _loader_cat(k):
    halos = [{'A': [1, 0, 1, 0], 'B': [0, 1, 0, 0], 'gone': False}] * (3 + k % 4)
    return {'layout': 'box', 'box': [500.0, 32.0, 123.456][k % 3], 'velz': [3200.0, 1234.5, 0.37][k % 3], 'ppd': 64, 'nprev': 1, 'compression': 'none', 'seed': 18000 + k,
            'slabs': [{'index': 0, 'halos': halos, 'tailA': 0, 'tailB': 0}, {'index': 1, 'halos': halos[:2], 'tailA': 0, 'tailB': 0}]}


def _run_loader(d):
    """The observation point of the property: the sigma{r,n,v}_eigenvecs{Min,Mid,Maj}_{com,L2com} halo columns, for every
    selection of the three axes. Each loaded column must be the float32 image of the direct decoding and (hence) unit / orthogonal /
    right-handed to float32 accuracy, whichever of its siblings were requested with it."""
    import warnings

    from vt.gen import catalog as G

    from vt import env

    env.register_asdf()
    from abacusnbody.data.compaso_halo_catalog import CompaSOHaloCatalog

    rnv, com, sub = d['rnv'], d['com'], list(d['subset'])
    if rnv not in ('sigmar', 'sigman', 'sigmav') or com not in ('_com', '_L2com') or not sub or any(w not in ('Min', 'Mid', 'Maj') for w in sub) or len(set(sub)) != len(sub):
        raise Reject('loader descriptor')
    root = G.scratch_root('c18')
    cat = G.build(_loader_cat(int(d['cat'])), root)
    try:
        fields = ['%s_eigenvecs%s%s' % (rnv, w, com) for w in sub]
        with warnings.catch_warnings():
            warnings.simplefilter('ignore')
            c = call_repo(lambda: CompaSOHaloCatalog(cat.groupdir, cleaned=False, fields=list(fields), convert_units=bool(d.get('convert', True))), _sig='euler-loader-raised')
        codes = np.concatenate([S.raw['%s_eigenvecs%s_u16' % (rnv, com)] for S in cat.slabs])
        tri = dict(zip(('Min', 'Mid', 'Maj'), _decode(codes)))
        got = {}
        for w, f in zip(sub, fields):
            if f not in c.halos.colnames:
                raise Violation('euler-loader-column-missing', 'requested %s, columns are %s' % (fields, c.halos.colnames))
            a = np.asarray(c.halos[f])
            if a.shape != (len(codes), 3):
                raise Violation('euler-shape', 'column %s has shape %r for %d halos' % (f, a.shape, len(codes)))
            got[w] = a.astype(np.float64)
            want = tri[w].astype(np.float32).astype(np.float64)
            bad = ~(np.abs(got[w] - want).max(axis=1) <= 0)
            if bad.any():
                i = _first(bad)
                raise Violation('euler-loader-column-wrong', 'fields=%s: column %s row %d (code %d) is %r, the direct decoding gives %r' % (fields, f, i, int(codes[i]), got[w][i].tolist(), want[i].tolist()))
            bad = ~(np.abs(np.sqrt((got[w] ** 2).sum(axis=1)) - 1.0) <= 4e-7)
            if bad.any():
                i = _first(bad)
                raise Violation('euler-not-unit', 'fields=%s: column %s row %d (code %d) has length %r' % (fields, f, i, int(codes[i]), float(np.sqrt((got[w][i] ** 2).sum()))))
        _extra['loader_columns_checked'] = _extra.get('loader_columns_checked', 0) + len(sub)
    finally:
        G.destroy(cat)
