"""C17 — partition_parallel returns a stripe-ordered permutation of its input.

Code under test: abacusnbody.analysis.tsc.partition_parallel (numba, parallel=True, fastmath=True).

Generator: N = explicit particles (0..24, each placed by construction along `coord`: a stripe
boundary s*L/np shifted by -2..+2 ulp, 0, L, the float just below L, a uniform value, a duplicate
of an earlier coordinate or of an earlier whole row) + a seeded bulk of 0..300 more drawn from the same
mixture (also sized as thread-count multiples +-1) x npartition 1..64 and 65..200 (> N) x coord
x float32/float64 x weights none/index/random/constant x sort x nthread 1..16 and -1 (= all 16)
x box sizes (dyadic, decimal, not representable in float32).  Positions stay in [0, L].
Exhaustive sub-space: every (N, nthread) with N <= 256 (quick) / 520 (thorough), nthread 1..16,
on an adversarial particle pattern; plus six blocks of 66 000..270 000 particles (uniform, or a slab inside one
stripe) with 1-2 threads so that one thread's share of one stripe exceeds 2^16 / 2^17 (the per-thread
histogram cell); the strategy draws such a block in ~1/40 of the cases.

Oracle (none of it re-implements the scatter):
  (i)   rows (x,y,z,w) of the output are a permutation of the input rows (bit patterns, lexicographic sort);
  (ii)  inputs bit-identical to copies taken before the call;
  (iii) starts has npartition+1 integer entries, non-decreasing, starts[0]==0, starts[-1]==N;
  (iv)  a particle placed in stripe s has s in its admissible key set
        { min(floor(q(1-4eps)), np-1) .. min(floor(q(1+4eps)), np-1) },  q = x*np/L in exact rational
        arithmetic, eps = machine epsilon of the position dtype (the code rounds np/L and the product to that
        dtype, so a value within a few ulp of a boundary may legitimately land on either side);
  (v)   with sort=True every stripe is non-decreasing in the coordinate;
  (vi)  a second call with the same arguments returns bit-identical arrays.
"""
from fractions import Fraction

import numpy as np
from hypothesis import strategies as st

from vt.core import Reject, Violation, call_repo, dumps

ID = 'C17'
RULE = (
    'Hypothesis descriptors (dtype, box, npartition, coord, weights mode, sort, nthread, explicit particle specs, bulk count, seed); '
    'non-trivial = at least 2 non-empty stripes AND (a duplicated coordinate/row, or a particle within 2 ulp of a stripe boundary / at 0 / at L, '
    'or nthread does not divide N); distinct = descriptor hash. Exhaustive sub-space: all (N, nthread) pairs on a fixed adversarial pattern.'
)
ASSUMPTIONS = [
    'positions in [0, BoxSize] (documented domain [0,BoxSize) plus the value BoxSize itself, which in-place wrapping can produce); boxsize passed as a Python float; weights have the dtype of the positions or (mode other) the other float type; C-contiguous arrays',
    'stripe membership is judged with an admissible key set: exact rational x*np/L times (1 +- 4 eps(dtype)); a particle whose two candidates differ may be in either stripe',
    'NUMBA_NUM_THREADS=16 and NUMBA_THREADING_LAYER=workqueue in the workers (the per-thread ranges are derived from the nthread argument, not from the layer; workqueue keeps the call cost bounded on an oversubscribed machine); shard 0 runs with NUMBA_BOUNDSCHECK=1',
    'schedule independence is not sampled directly: every thread owns a private output range, so the result is a function of the thread count, which is enumerated (1..16); run-to-run identity (vi) is a corroborating probe only',
]
EXHAUSTIVE_NOTE = {
    'quick': 'all (N, nthread) with N in 0..256, nthread in 1..16 (npartition 5, adversarial boundary/duplicate pattern; dtype, weights, sort, coord cycled); 6 large blocks (66k..270k particles, >2^16 per thread and stripe)',
    'thorough': 'all (N, nthread) with N in 0..520, nthread in 1..16 (npartition 5, adversarial boundary/duplicate pattern; dtype, weights, sort, coord cycled); 6 large blocks (66k..270k particles, >2^16 per thread and stripe)',
}
BOXES = [1.0, 2.0, 64.0, 100.0, 123.0, 500.0, 1000.0, 2000.0, 0.5, 0.7, 0.1, 123.456, 1e-3, 3.0]
_last = {'key': None, 'nt': False, 'classes': []}
_extra = {'kernel_calls': 0, 'particles_checked': 0, 'ambiguous_key_particles': 0}


def config(tier):
    e = {'NUMBA_THREADING_LAYER': 'workqueue'}
    if tier == 'quick':
        return dict(shards=8, examples=500, numba_threads=16, boundscheck=[True, False, False, False], shrink_calls=150, soft_s=170, env=e)
    return dict(shards=8, examples=10000, numba_threads=16, boundscheck=[True, False, False, False], shrink_calls=400, soft_s=800, env=e)


def extra_evidence():
    return dict(_extra)


# --------------------------------------------------------------------------- building the input


def _lmax(L, T):
    """largest value of dtype T that is <= L"""
    x = T(L)
    if float(x) > L:
        x = np.nextafter(x, T(0))
    return x


def _shift(x, k, T):
    x = T(x)
    for _ in range(abs(int(k))):
        x = np.nextafter(x, T(np.inf) if k > 0 else T(-np.inf))
    return x


def _coord_value(kind, a, k, npart, L, T, lmax, prev):
    if kind == 'b':  # stripe boundary s*L/np shifted by k ulp
        s = int(a) % (npart + 1)
        x = _shift(T(s * L / npart), k, T)
    elif kind == 'bw':  # stripe boundary shifted by +-2^|k| ulp: outside the rounding tolerance of the position dtype but closer
        # than single precision resolves (a key computed with a float32 inverse width misplaces these float64 particles)
        s = int(a) % (npart + 1)
        x0 = T(s * L / npart)
        m = min(abs(int(k)), 27 if T is np.float64 else 10)
        x = T(x0 + (1 if k > 0 else -1) * T(2.0**m) * np.spacing(x0))
    elif kind == 'u':
        x = T((int(a) % 65536) / 65536.0 * L)
    elif kind == 'z':
        x = T(0)
    elif kind == 'L':
        x = lmax
    elif kind == 'nL':
        x = np.nextafter(lmax, T(0))
    elif kind in ('dx', 'dr'):
        x = prev[int(a) % len(prev)] if len(prev) else T(0)
    else:
        raise Reject('unknown particle kind')
    if not (x >= 0):
        x = T(0)
    if x > lmax:
        x = lmax
    return x


def build(d):
    T = np.dtype(d['dtype']).type
    L = float(d['box'])
    npart = int(d['np'])
    coord = int(d['coord'])
    if not (L > 0 and npart >= 1 and coord in (0, 1, 2) and T in (np.float32, np.float64)):
        raise Reject('bad descriptor')
    lmax = _lmax(L, T)
    rng = np.random.Generator(np.random.PCG64(int(d['seed'])))
    specs = [list(p) for p in d['parts']]
    bulk = int(d['bulk'])
    if bulk:
        kinds = rng.choice(['b', 'b', 'b', 'bw', 'bw', 'u', 'u', 'dx', 'dr', 'z', 'L', 'nL'], size=bulk)
        aa = rng.integers(0, 1 << 16, size=bulk)
        kk = rng.integers(-2, 3, size=bulk)
        wide = rng.integers(4, 28, size=bulk) * rng.choice([-1, 1], size=bulk)
        kk = np.where(kinds == 'bw', wide, kk)
        specs += [[str(kinds[i]), int(aa[i]), int(kk[i])] for i in range(bulk)]
    n = len(specs)
    pos = np.empty((n, 3), dtype=T)
    other = rng.integers(0, 4, size=(n, 3)).astype(np.float64) / 4.0 * L
    unif = rng.random((n, 3)) * L
    pick = rng.random((n, 3)) < 0.5
    pos[:] = np.where(pick, other, unif).astype(T)
    np.minimum(pos, lmax, out=pos)
    flags = {'dup': False, 'edge': False}
    xs = []
    for i, (kind, a, k) in enumerate(specs):
        x = _coord_value(kind, a, k, npart, L, T, lmax, xs)
        if kind == 'dr' and i > 0:
            pos[i] = pos[int(a) % i]
        if kind in ('dx', 'dr') and i > 0:
            flags['dup'] = True
        if kind in ('b', 'bw', 'z', 'L', 'nL'):
            flags['edge'] = True
        pos[i, coord] = x
        xs.append(x)
    big = d.get('big')
    if big:
        # a vectorised block of many more particles (so that one thread's share of one stripe exceeds 2^16): uniform over the
        # box, or a slab confined to one stripe
        nb_ = int(big['n'])
        if not (0 < nb_ <= 400000):
            raise Reject('big block size')
        blk = (rng.random((nb_, 3)) * L).astype(T)
        if big['dist'] == 'slab':
            s0 = int(big.get('stripe', 0)) % npart
            blk[:, coord] = ((s0 + 0.05 + 0.9 * rng.random(nb_)) * (L / npart)).astype(T)
        elif big['dist'] != 'uniform':
            raise Reject('big block distribution')
        np.minimum(blk, lmax, out=blk)
        pos = np.concatenate([pos, blk])
        n = len(pos)
    wm = d['weights']
    if wm == 'none':
        w = None
    elif wm == 'index':
        w = (np.arange(n) + 1).astype(T)
    elif wm == 'rand':
        w = rng.random(n).astype(T)
    elif wm == 'const':
        w = np.ones(n, dtype=T)
    elif wm == 'other':
        # weights in the *other* float type than the positions (user weights are passed straight through by the callers):
        # values that are exact in float64 but not in float32, so a silent cast is visible
        To = np.float64 if T is np.float32 else np.float32
        w = ((np.arange(n) + 1) * (1.0 + 2.0**-30 if To is np.float64 else 1.0)).astype(To)
    else:
        raise Reject('weights mode')
    return T, L, npart, coord, pos, w, flags


def admissible_keys(x, npart, L, T):
    """(klo, khi) int arrays: the stripes each coordinate value may legitimately be assigned to."""
    eps = float(np.finfo(T).eps)
    x64 = x.astype(np.float64)
    q = x64 * npart / L
    fl = np.floor(q)
    dist = np.minimum(q - fl, fl + 1 - q)
    near = dist <= 16 * eps * np.maximum(q, 1.0) + 1e-300
    klo = fl.astype(np.int64)
    khi = klo.copy()
    if near.any():
        Lf = Fraction(L)
        e4 = 4 * Fraction(eps)
        cache = {}
        for i in np.flatnonzero(near):
            xv = float(x64[i])
            r = cache.get(xv)
            if r is None:
                qq = Fraction(xv) * npart / Lf
                lo = (qq * (1 - e4)).__floor__()
                hi = (qq * (1 + e4)).__floor__()
                r = cache[xv] = (lo, hi)
            klo[i], khi[i] = r
    np.clip(klo, 0, npart - 1, out=klo)
    np.clip(khi, 0, npart - 1, out=khi)
    return klo, khi


def _bits(a):
    a = np.ascontiguousarray(a)
    return a.view('u%d' % a.dtype.itemsize)


def _rows(pos, w):
    cols = [_bits(pos[:, 0]), _bits(pos[:, 1]), _bits(pos[:, 2])]
    if w is not None:
        cols.append(_bits(w))
    m = np.stack([c.astype(np.uint64) for c in cols], axis=1) if len(pos) else np.zeros((0, len(cols)), np.uint64)
    order = np.lexsort(m.T[::-1])
    return m[order]


# --------------------------------------------------------------------------- the case


def run_case(d):
    from abacusnbody.analysis.tsc import partition_parallel

    _last.update(key=dumps(d), nt=False, classes=[])
    T, L, npart, coord, pos, w, flags = build(d)
    n = len(pos)
    nthread = int(d['nthread'])
    sort = bool(d['sort'])
    if not (nthread == -1 or 1 <= nthread <= 16):
        raise Reject('nthread outside 1..16')
    x = pos[:, coord].copy()
    if n and (float(x.min()) < 0 or float(x.max()) > L):
        raise Reject('position outside [0, L]')
    nt_eff = 16 if nthread == -1 else nthread

    klo, khi = admissible_keys(x, npart, L, T)
    amb = int(np.count_nonzero(klo != khi))
    nonempty_sure = len(set(klo[klo == khi].tolist()))
    cls = [
        'N=0' if n == 0 else 'N=1' if n == 1 else 'N>=2',
        'dtype=' + np.dtype(T).name,
        'coord=%d' % coord,
        'nthread=%d' % nthread,
        'weights=' + d['weights'],
        'sort' if sort else 'nosort',
    ]
    if n < nt_eff:
        cls.append('more-threads-than-particles')
    cls.append('nthread-divides-N' if n % nt_eff == 0 else 'nthread-not-dividing-N')
    if npart > n:
        cls.append('npartition>N')
    if npart == 1:
        cls.append('npartition=1')
    if amb:
        cls.append('has-ambiguous-key')
    if n and float(x.max()) == float(_lmax(L, T)):
        cls.append('has-x=L')
    if n and float(x.min()) == 0.0:
        cls.append('has-x=0')
    if d.get('big'):
        cls.append('big-block')
    if flags['dup']:
        cls.append('has-duplicate')
    if flags['edge']:
        cls.append('has-boundary-value')
    cls.append('nonempty-stripes>=2' if nonempty_sure >= 2 else 'nonempty-stripes<2')
    nt = nonempty_sure >= 2 and (flags['dup'] or flags['edge'] or n % nt_eff != 0)
    _last.update(nt=nt, classes=cls)
    _extra['particles_checked'] += n
    _extra['ambiguous_key_particles'] += amb

    pos0 = pos.copy()
    w0 = None if w is None else w.copy()

    def call():
        _extra['kernel_calls'] += 1
        return call_repo(partition_parallel, pos, npart, L, weights=w, coord=coord, nthread=nthread, sort=sort, _sig='partition-raised')

    ctx = 'N=%d np=%d coord=%d %s weights=%s sort=%s nthread=%d box=%r' % (n, npart, coord, np.dtype(T).name, d['weights'], sort, nthread, L)
    res = call()
    if not (isinstance(res, tuple) and len(res) == 3):
        raise Violation('partition-output-shape', ctx + ': return value is not a 3-tuple')
    ps, starts, ws = res
    # shapes / dtypes
    if not (isinstance(ps, np.ndarray) and ps.shape == (n, 3) and ps.dtype == pos.dtype):
        raise Violation('partition-output-shape', ctx + ': partitioned has shape %r dtype %r' % (getattr(ps, 'shape', None), getattr(ps, 'dtype', None)))
    if not (isinstance(starts, np.ndarray) and starts.shape == (npart + 1,) and starts.dtype.kind in 'iu'):
        raise Violation('partition-output-shape', ctx + ': starts has shape %r dtype %r' % (getattr(starts, 'shape', None), getattr(starts, 'dtype', None)))
    if w is None:
        if ws is not None:
            raise Violation('partition-output-shape', ctx + ': weights returned although none were given')
    elif not (isinstance(ws, np.ndarray) and ws.shape == (n,) and ws.dtype == w.dtype):
        raise Violation('partition-output-shape', ctx + ': wpart has shape %r dtype %r' % (getattr(ws, 'shape', None), getattr(ws, 'dtype', None)))
    # (ii) inputs untouched
    if not np.array_equal(_bits(pos), _bits(pos0)) or (w is not None and not np.array_equal(_bits(w), _bits(w0))):
        raise Violation('partition-input-modified', ctx + ': the input arrays were changed by the call')
    # (iii) starts
    st_ = starts.astype(np.int64)
    if st_[0] != 0 or st_[-1] != n or np.any(np.diff(st_) < 0):
        raise Violation('partition-starts', ctx + ': starts=%s' % st_.tolist()[:70])
    # (i) permutation of rows
    rin, rout = _rows(pos0, w0), _rows(ps, ws)
    if not np.array_equal(rin, rout):
        pin, pout = _rows(pos0, None), _rows(ps, None)
        if np.array_equal(pin, pout) and w is not None and np.array_equal(np.sort(_bits(w0)), np.sort(_bits(ws))):
            raise Violation('partition-weights-misaligned', ctx + ': positions and weights are each a permutation but the (position, weight) rows are not')
        a = {tuple(r) for r in rin.tolist()}
        b = {tuple(r) for r in rout.tolist()}
        raise Violation('partition-not-permutation', ctx + ': output rows are not a permutation of the input rows (%d input rows missing, %d rows invented, multiset sizes %d/%d)' % (len(a - b), len(b - a), len(rin), len(rout)))
    # (iv) stripe membership
    if n:
        xo = ps[:, coord]
        stripe = np.searchsorted(st_[1:], np.arange(n), side='right')
        olo, ohi = admissible_keys(xo, npart, L, T)
        bad = np.flatnonzero((stripe < olo) | (stripe > ohi))
        if len(bad):
            j = int(bad[0])
            raise Violation('partition-stripe-membership', ctx + ': output row %d with x=%r (x*np/L=%.17g) is in stripe %d, admissible %d..%d; %d rows misplaced' % (j, float(xo[j]), float(xo[j]) * npart / L, int(stripe[j]), int(olo[j]), int(ohi[j]), len(bad)))
        # (v) sorted within stripes
        if sort:
            for s in range(npart):
                seg = xo[st_[s] : st_[s + 1]]
                if len(seg) > 1 and np.any(np.diff(seg) < 0):
                    raise Violation('partition-not-sorted', ctx + ': stripe %d is not non-decreasing in coordinate %d' % (s, coord))
    # (vi) run-to-run identity
    ps2, starts2, ws2 = call()
    same = np.array_equal(_bits(ps), _bits(ps2)) and np.array_equal(starts, starts2) and ((ws is None and ws2 is None) or (ws is not None and ws2 is not None and np.array_equal(_bits(ws), _bits(ws2))))
    if not same:
        raise Violation('partition-nondeterministic', ctx + ': two calls with identical arguments returned different arrays')
    return dict(nontrivial=nt, classes=cls)


def nontrivial(d):
    return bool(_last['nt']) if _last['key'] == dumps(d) else False


def classes(d):
    return []  # all class labels depend on the built arrays; run_case returns them


# --------------------------------------------------------------------------- strategy


@st.composite
def _part(draw):
    kind = draw(st.sampled_from(['b', 'b', 'b', 'bw', 'bw', 'u', 'u', 'dx', 'dr', 'z', 'L', 'nL']))
    a = draw(st.integers(0, 65535)) if kind == 'u' else draw(st.integers(0, 64))
    k = draw(st.integers(-2, 2)) if kind == 'b' else (draw(st.sampled_from([-1, 1])) * draw(st.integers(4, 27)) if kind == 'bw' else 0)
    return [kind, a, k]


@st.composite
def _desc(draw):
    dtype = draw(st.sampled_from(['float32', 'float64']))
    box = draw(st.one_of(st.sampled_from(BOXES), st.sampled_from(BOXES), st.floats(0.015625, 65536.0, allow_nan=False, width=32), st.floats(0.015625, 65536.0, allow_nan=False, width=64)))
    nthread = draw(st.one_of(st.integers(1, 16), st.integers(1, 16), st.integers(1, 16), st.sampled_from([-1, 1, 2, 3, 5, 7, 15, 16])))
    parts = draw(st.one_of(st.lists(_part(), min_size=0, max_size=4), st.lists(_part(), min_size=2, max_size=24)))
    nt_eff = 16 if nthread == -1 else nthread
    bm = draw(st.sampled_from(['none', 'small', 'small', 'any', 'mult', 'mult']))
    if bm == 'none':
        bulk = 0
    elif bm == 'small':
        bulk = draw(st.integers(0, 40))
    elif bm == 'any':
        bulk = draw(st.integers(0, 300))
    else:
        target = draw(st.integers(0, 18)) * nt_eff + draw(st.integers(-1, 1))
        bulk = max(0, min(300, target - len(parts)))
    n = len(parts) + bulk
    npart = draw(st.one_of(st.sampled_from([1, 2, 2, 3, 3, 4, 5, 7, 8, 16, 33, 64]), st.integers(2, 64), st.integers(2, 12), st.integers(max(1, n), max(1, n) + 8), st.integers(65, 200)))
    d = dict(
        dtype=dtype, box=float(box), np=npart, coord=draw(st.integers(0, 2)),
        weights=draw(st.sampled_from(['none', 'none', 'index', 'index', 'index', 'rand', 'const', 'other'])),
        sort=draw(st.booleans()), nthread=nthread, parts=parts, bulk=bulk, seed=draw(st.integers(0, 2**31 - 1)),
    )
    if draw(st.integers(0, 39)) == 0:
        # rarely: a block large enough that one (thread, stripe) cell of the histogram passes 2^16 / 2^17
        d['np'] = draw(st.sampled_from([1, 2, 2, 3, 4]))
        d['nthread'] = draw(st.sampled_from([1, 1, 2, 3, 16]))
        d['big'] = dict(n=draw(st.sampled_from([65536, 70001, 131073, 150000, 200000])), dist=draw(st.sampled_from(['uniform', 'slab'])), stripe=draw(st.integers(0, 3)))
    return d


def strategy(tier):
    return _desc()


# --------------------------------------------------------------------------- exhaustive sub-space

_PATTERN = [['bw', 3, 20], ['bw', 2, -24], ['b', 1, 0], ['b', 2, -1], ['dx', 0, 0], ['b', 5, 0], ['z', 0, 0], ['b', 3, 1], ['u', 40000, 0], ['dr', 1, 0], ['b', 4, -2], ['nL', 0, 0], ['b', 2, 0], ['u', 1234, 0], ['b', 1, 2]]


def exhaustive(tier, shard, nshards):
    nmax = 256 if tier == 'quick' else 520
    i = 0
    for n in range(nmax + 1):
        for nthread in range(1, 17):
            if i % nshards == shard:
                parts = [_PATTERN[j % len(_PATTERN)] for j in range(n)]
                v = n + nthread
                yield dict(
                    dtype='float32' if v % 2 else 'float64', box=[1.0, 123.0, 0.7][n % 3], np=5, coord=v % 3,
                    weights='index' if (n // 2 + nthread) % 2 else 'none', sort=bool((n // 3 + nthread) % 2),
                    nthread=nthread, parts=parts, bulk=0, seed=n,
                )
            i += 1
    # a few blocks with more than 2^16 / 2^17 particles in one thread's share of one stripe
    for k, (nb_, npart, nthread, dist) in enumerate(_BIG):
        if i % nshards == shard:
            yield dict(dtype='float32' if k % 2 else 'float64', box=[1.0, 123.0, 0.7][k % 3], np=npart, coord=k % 3, weights='index' if k % 2 else 'none', sort=bool(k % 3 == 0),
                       nthread=nthread, parts=[_PATTERN[j] for j in range(5)], bulk=0, seed=k, big=dict(n=nb_, dist=dist, stripe=k))
        i += 1


_BIG = [(70001, 1, 1, 'uniform'), (140001, 2, 1, 'uniform'), (150000, 4, 2, 'slab'), (66000, 3, 1, 'slab'), (200000, 2, 2, 'uniform'), (270000, 2, 2, 'slab')]
