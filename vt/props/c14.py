"""C14 — blosc ('blsc') block decompression is independent of how the stream is chunked.

Code under test: abacusnbody.data.asdf.BloscCompressor.compress / .decompress
(the codec itself is the zlib stand-in /verif/shims/blosc.py; the property is about
the length-prefixed framing and the reassembly state machine around it).

Generator (Hypothesis, mode 'gen'): payload = item size {1,2,4,8} x 0..3000 elements x
content (zeros / ramp / 4-symbol text / random / mixed runs) x compression_block_size from
one item to larger than the payload (0..40 frames, also not a multiple of the item size,
also the default) x a chunking of the compressed stream built *constructively*:
single chunk, all 1-byte chunks, fixed size k, or a cut list whose entries are placed
relative to the real frame layout (offset 0..4 inside a length prefix, frame boundary
-1/0/+1, interior of a frame, runs of consecutive 1-byte cuts, absolute offsets;
repeated cuts give empty chunks) x chunk object type (bytes / bytearray / read-only
memoryview / writable memoryview) x slack in `out`.  A fraction of cases ('e2e') goes
through asdf.AsdfFile.write_to(all_array_compression='blsc') and asdf.open with a
generated asdf io_block_size (the documented knob that sets the read-chunk size).

Oracle:
  * compress: the yielded pieces joined are parsed by an independent reference parser
    (big-endian uint32 length + frame, nothing left over); the number of frames is
    ceil(n / (block_size // item)) and every frame decodes (stand-in codec) to exactly its
    slice of the payload.
  * decompress(chunks, out): returns len(payload) bytes; out[:n] == payload (out was
    pre-filled with the complement of the payload, so every byte must be written);
    the slack behind the payload and both sentinel margins around `out` are intact;
    the same for the single-chunk call (differential).
Second engine (thorough): atheris target /verif/fuzz/c14_fuzz.py with the same oracle
(mode 'raw' descriptors decoded from fuzzer bytes), see run_atheris().
"""
import json
import os
import struct
import subprocess
import sys
import tempfile

import numpy as np
from hypothesis import strategies as st

from vt import env
from vt.core import Reject, Violation, call_repo, dumps

ID = 'C14'
RULE = (
    "Hypothesis descriptors (item size, n elements, fill, compression_block_size, shuffle, chunking spec, chunk types, slack); "
    "chunk cuts are resolved against the real frame layout of the stream that compress() produced; "
    "non-trivial = stream has >=2 frames AND at least one cut strictly inside a 4-byte length prefix (offset 1..3) "
    "AND at least one cut strictly inside a compressed frame; distinct = descriptor hash. "
    "Exhaustive sub-space: for small fixed payloads every fixed chunk size, every single cut, every pair of cuts, "
    "every triple of prefix-adjacent cuts."
)
ASSUMPTIONS = [
    "blosc is the stand-in /verif/shims/blosc.py (16-byte header + zlib, decompress_ptr = memmove); it validates frame length and payload length, so a mis-framed call raises instead of corrupting memory; nothing is claimed about real zstd/blosc frames",
    "compress() is called with a memoryview of a contiguous 1-D unsigned-integer array (itemsize preserved), as the asdf Compressor interface documents; chunks are bytes-like objects; out is a contiguous writable memoryview at least as long as the payload",
    "end-to-end cases write through asdf with the harness adaptor memoryview(data) around compress (asdf 5.4 passes an ndarray); decompress is never wrapped",
    "atheris (libFuzzer) campaign in the thorough tier only; its executions are reported under coverage.extra, not in evaluations",
]
EXHAUSTIVE_NOTE = {
    'quick': 'payload A (3 frames): every fixed chunk size 1..L, every single cut, every pair of cuts 0..L, every triple of prefix-adjacent cuts',
    'thorough': 'payloads A (3 frames), B (5 one-byte-item frames), C (2 incompressible frames), D (1 frame): every fixed chunk size, every single cut, every pair of cuts, every triple of prefix-adjacent cuts; plus two atheris campaigns (empty / seeded corpus)',
}

ITEMS = [1, 2, 4, 8]
FILLS = ['zeros', 'ramp', 'text', 'random', 'mixed']
SHUFFLES = ['shuffle', 'bitshuffle', None]
MARGIN = 64
FUZZ_SCRIPT = os.path.join(env.VERIF, 'fuzz', 'c14_fuzz.py')

_extra = {'atheris_executions': 0, 'atheris_campaigns': 0, 'atheris_crash_artifacts': 0, 'e2e_asdf_cases': 0, 'chunks_fed': 0, 'decompress_calls': 0, 'reused_buffer_calls': 0, 'reentrant_calls': 0, 'typed_out_calls': 0}
_last = {'key': None, 'nt': False, 'classes': []}


def config(tier):
    if tier == 'quick':
        return dict(shards=8, examples=1500, numba_threads=1, shrink_calls=200, soft_s=100)
    return dict(shards=16, examples=4500, numba_threads=1, shrink_calls=500, soft_s=720)


def extra_evidence():
    return dict(_extra)


# --------------------------------------------------------------------------- payloads


def make_payload(item, n, fill, seed):
    """Deterministic payload (pure function of the descriptor fields)."""
    dt = np.dtype('u%d' % item)
    n = int(n)
    if fill == 'zeros':
        return np.zeros(n, dtype=dt)
    if fill == 'ramp':
        return (np.arange(n, dtype=np.uint64) + np.uint64(seed % 251)).astype(dt)
    rng = np.random.Generator(np.random.PCG64(int(seed)))
    if fill == 'text':
        sym = rng.integers(0, 256, size=4, dtype=np.uint64)
        return sym[rng.integers(0, 4, size=n)].astype(dt)
    raw = np.frombuffer(rng.bytes(n * item), dtype=dt).copy() if n else np.zeros(0, dtype=dt)
    if fill == 'random':
        return raw
    if fill == 'mixed':  # alternating runs of random and constant data -> frames of very different lengths
        out = raw.copy()
        pos, flip = 0, bool(seed & 1)
        while pos < n:
            run = int(rng.integers(1, 64))
            if flip:
                out[pos : pos + run] = 7
            flip = not flip
            pos += run
        return out
    raise Reject('unknown fill')


# --------------------------------------------------------------------------- reference framing


def reference_stream(payload, cbs):
    """Reference encoder (used only to size the exhaustive sub-space and to seed the fuzz corpus)."""
    import blosc

    item = payload.dtype.itemsize
    nelem = cbs // item
    out = b''
    for i in range(0, len(payload), nelem):
        c = blosc.compress(payload[i : i + nelem].tobytes(), typesize=item, clevel=1)
        out += struct.pack('>I', len(c)) + c
    return out


def parse_frames(stream):
    """Independent parser: [(prefix_offset, frame_offset, frame_length)]; raises Violation on a malformed stream."""
    frames = []
    p, L = 0, len(stream)
    while p < L:
        if p + 4 > L:
            raise Violation('blsc-compress-framing', 'stream of %d bytes ends inside a length prefix at %d' % (L, p))
        (ln,) = struct.unpack('>I', stream[p : p + 4])
        if ln == 0 or p + 4 + ln > L:
            raise Violation('blsc-compress-framing', 'frame at %d announces %d bytes, stream has %d' % (p, ln, L))
        frames.append((p, p + 4, ln))
        p += 4 + ln
    return frames


def check_compress(payload, cbs, pieces, stream):
    import blosc

    item = payload.dtype.itemsize
    n = len(payload)
    frames = parse_frames(stream)
    nelem = (cbs if cbs is not None else (1 << 22)) // item
    exp_frames = -(-n // nelem)
    if len(frames) != exp_frames:
        raise Violation('blsc-compress-frame-count', 'n=%d item=%d block=%r: %d frames, expected %d' % (n, item, cbs, len(frames), exp_frames))
    if len(pieces) != exp_frames:
        raise Violation('blsc-compress-frame-count', 'compress yielded %d pieces for %d frames' % (len(pieces), exp_frames))
    raw = payload.tobytes()
    for k, (_p, f, ln) in enumerate(frames):
        try:
            got = blosc.decompress(stream[f : f + ln])
        except Exception as e:
            raise Violation('blsc-compress-frame-content', 'frame %d does not decode: %r' % (k, e))
        exp = raw[k * nelem * item : (k + 1) * nelem * item]
        if got != exp:
            raise Violation('blsc-compress-frame-content', 'frame %d decodes to %d bytes, expected the %d bytes of block %d' % (k, len(got), len(exp), k))
    return frames


# --------------------------------------------------------------------------- chunkings


def _resolve_cut(spec, frames, L):
    kind, f, a, m = spec
    if kind == 'a' or not frames:
        return [int(a) % (L + 1)]
    p, fo, ln = frames[int(f) % len(frames)]
    if kind == 'p':  # offset a in 0..4 inside the length prefix
        return [p + int(a) % 5]
    if kind == 'b':  # frame end -1/0/+1
        return [min(L, max(0, fo + ln + (int(a) % 3) - 1))]
    if kind == 'i':  # strictly inside the frame body when it has >=2 bytes
        if ln < 2:
            return [fo]
        return [fo + 1 + (int(a) % 256) * (ln - 2) // 255]
    if kind == 'r':  # run of m consecutive cuts (1-byte chunks) starting a-3 around the prefix start
        s = p + (int(a) % 9) - 3
        return [min(L, max(0, s + j)) for j in range(1 + int(m) % 8)]
    raise Reject('unknown cut kind')


def build_chunks(chunking, frames, stream):
    """chunking spec -> list of chunk lengths (sum == len(stream))."""
    L = len(stream)
    kind = chunking['kind']
    if kind == 'single':
        return [L]
    if kind == 'ones':
        return [1] * L
    if kind == 'fixed':
        k = max(1, int(chunking['k']))
        return [min(k, L - i) for i in range(0, L, k)]
    if kind == 'cuts':
        cuts = []
        for spec in chunking['cuts']:
            cuts += _resolve_cut(spec, frames, L)
        cuts = sorted(cuts)  # duplicates stay: they produce empty chunks
        lens, prev = [], 0
        for c in cuts:
            lens.append(c - prev)
            prev = c
        lens.append(L - prev)
        return lens
    if kind == 'lens':  # explicit lengths (raw / fuzz descriptors); tail goes into a last chunk
        lens, used = [], 0
        for ln in chunking['lens']:
            ln = max(0, min(int(ln), L - used))
            lens.append(ln)
            used += ln
        if used < L:
            lens.append(L - used)
        return lens
    raise Reject('unknown chunking kind')


def _as_type(b, t):
    t = int(t) % 4
    if t == 0:
        return bytes(b)
    if t == 1:
        return bytearray(b)
    if t == 2:
        return memoryview(bytes(b))
    return memoryview(bytearray(b))


def classify(frames, lens, L):
    """Class labels of a chunking relative to the frame layout."""
    cls = set()
    region = {}
    for p, fo, ln in frames:
        region[p] = 'cut-at-prefix-start'
        for j in (1, 2, 3):
            region[p + j] = 'cut-in-prefix'
        region[fo] = 'cut-at-frame-start'
    pos = 0
    body = []
    for p, fo, ln in frames:
        body.append((fo, fo + ln))
    cuts = []
    for ln_ in lens[:-1]:
        pos += ln_
        cuts.append(pos)
    for c in cuts:
        if c <= 0 or c >= L:
            continue
        r = region.get(c)
        if r is None:
            r = 'cut-in-frame'
        cls.add(r)
    if any(x == 0 for x in lens):
        cls.add('empty-chunk')
    if any(x == 1 for x in lens):
        cls.add('one-byte-chunk')
    nt = len(frames) >= 2 and 'cut-in-prefix' in cls and 'cut-in-frame' in cls
    return cls, nt


# --------------------------------------------------------------------------- the judge


def _decompress_once(comp, chunks_objs, payload_bytes, slack, tail_margin, label):
    nb = len(payload_bytes)
    tot = MARGIN + nb + slack + tail_margin
    pat = (np.arange(tot, dtype=np.uint32) * 37 + 11).astype(np.uint8)
    buf = pat.copy()
    pay = np.frombuffer(payload_bytes, dtype=np.uint8)
    buf[MARGIN : MARGIN + nb] = ~pay  # every payload byte must be written by the code under test
    out = memoryview(buf)[MARGIN : MARGIN + nb + slack]
    # the interface takes any contiguous memoryview: besides the flat byte view asdf passes, a typed view (float32 / int64 items)
    # or a 2-D (n, 9) byte view of the same memory, chosen deterministically from the sizes
    tot_out = nb + slack
    pick = (nb + 3 * slack + len(label)) % 4
    if pick == 1 and tot_out and tot_out % 4 == 0:
        out = out.cast('f')
        _extra['typed_out_calls'] += 1
    elif pick == 2 and tot_out and tot_out % 8 == 0:
        out = out.cast('q')
        _extra['typed_out_calls'] += 1
    elif pick == 3 and tot_out and tot_out % 9 == 0:
        out = out.cast('B', shape=(tot_out // 9, 9))
        _extra['typed_out_calls'] += 1
    _extra['decompress_calls'] += 1
    ret = call_repo(comp.decompress, iter(chunks_objs), out, _sig='blsc-decompress-raised')
    if not (np.array_equal(buf[:MARGIN], pat[:MARGIN]) and np.array_equal(buf[MARGIN + nb :], pat[MARGIN + nb :])):
        raise Violation('blsc-decompress-overrun', '%s: bytes outside out[:%d] were modified (slack=%d)' % (label, nb, slack))
    if ret != nb:
        raise Violation('blsc-decompress-length', '%s: returned %r, payload has %d bytes' % (label, ret, nb))
    if not np.array_equal(buf[MARGIN : MARGIN + nb], pay):
        bad = int(np.flatnonzero(buf[MARGIN : MARGIN + nb] != pay)[0])
        raise Violation('blsc-decompress-bytes', '%s: out differs from the payload first at byte %d of %d' % (label, bad, nb))


def judge(payload, cbs, shuffle, chunking, types, slack):
    from abacusnbody.data.asdf import BloscCompressor

    comp = BloscCompressor()
    item = payload.dtype.itemsize
    if cbs is not None and cbs < item:
        raise Reject('compression_block_size smaller than one item')
    kw = {}
    if cbs is not None:
        kw['compression_block_size'] = int(cbs)
    if shuffle != 'shuffle':
        kw['shuffle'] = shuffle
    mv = memoryview(payload)
    assert mv.contiguous and mv.itemsize == item and len(mv) == len(payload)
    pieces = call_repo(lambda: list(comp.compress(mv, **kw)), _sig='blsc-compress-raised')
    try:
        stream = b''.join(bytes(memoryview(p)) for p in pieces)
    except TypeError as e:
        raise Violation('blsc-compress-framing', 'compress yielded a non bytes-like piece: %r' % (e,))
    frames = check_compress(payload, cbs, pieces, stream)
    L = len(stream)
    lens = build_chunks(chunking, frames, stream)
    assert sum(lens) == L and all(x >= 0 for x in lens)

    cls, nt = classify(frames, lens, L)
    cls.add('frames=%s' % ('0' if not frames else '1' if len(frames) == 1 else '2-5' if len(frames) <= 5 else '6+'))
    cls.add('chunking=' + chunking['kind'])
    _last.update(nt=nt, classes=sorted(cls))

    chunks, pos = [], 0
    types = list(types) or [0]
    for i, ln in enumerate(lens):
        chunks.append(_as_type(stream[pos : pos + ln], types[i % len(types)]))
        pos += ln
    _extra['chunks_fed'] += len(chunks)

    raw = payload.tobytes()
    nelem = (cbs if cbs is not None else (1 << 22)) // item
    tail_margin = MARGIN + min(len(raw), nelem * item)
    _decompress_once(comp, chunks, raw, int(slack), tail_margin, 'chunked(%d chunks)' % len(chunks))
    if len(chunks) != 1:
        _decompress_once(comp, [stream], raw, int(slack), tail_margin, 'single-chunk')
        # the same chunking delivered by a reader that fills one fixed buffer (readinto) and hands out a view of it: a chunk's
        # bytes are only valid until the next chunk is requested
        _decompress_once(comp, _reused_buffer_reader([bytes(memoryview(c)) for c in chunks]), raw, int(slack), tail_margin, 'chunked(%d chunks, reused read buffer)' % len(chunks))
        _extra['reused_buffer_calls'] += 1
        # re-entrancy: asdf hands out one BloscCompressor instance per process, so a second block can be decompressed on the same
        # instance while this one is between two read chunks (another thread reading a lazily loaded array). Modelled
        # deterministically: the chunk iterator itself runs a complete, chunked decompression of another stream on `comp` before it
        # hands over the next chunk of this one. Neither result may be affected.
        _decompress_once(comp, _reentrant_reader(comp, [bytes(memoryview(c)) for c in chunks]), raw, int(slack), tail_margin, 'chunked(%d chunks, another stream decompressed on the same instance between chunks)' % len(chunks))
        _extra['reentrant_calls'] += 1
    return dict(nontrivial=nt, classes=sorted(cls))


_nested = {}


def _nested_stream(comp):
    if 'stream' not in _nested:
        pay = (np.arange(600, dtype=np.uint32) * 2654435761 % 251).astype(np.uint8)
        pieces = list(comp.compress(memoryview(pay), compression_block_size=256))
        _nested['pay'] = pay.tobytes()
        _nested['stream'] = b''.join(bytes(memoryview(p)) for p in pieces)
    return _nested['pay'], _nested['stream']


def _reentrant_reader(comp, pieces):
    pay, stream = _nested_stream(comp)
    when = {0, 1, 2, len(pieces) // 2, len(pieces) - 2}
    for i, p in enumerate(pieces):
        yield p
        if i in when and i < len(pieces) - 1:
            out = np.zeros(len(pay) + 16, dtype=np.uint8)
            cut = [stream[j : j + 7] for j in range(0, len(stream), 7)]
            ret = call_repo(comp.decompress, iter(cut), memoryview(out)[: len(pay)], _sig='blsc-decompress-raised')
            if ret != len(pay) or out[: len(pay)].tobytes() != pay or out[len(pay) :].any():
                raise Violation('blsc-decompress-bytes', 'a decompression started on the same instance while another stream was between two chunks returned %r bytes / wrong bytes' % (ret,))


def _reused_buffer_reader(pieces):
    buf = bytearray(max([len(p) for p in pieces] + [1]))
    for p in pieces:
        buf[:] = b'\xa5' * len(buf)  # whatever the previous chunk held is gone
        buf[: len(p)] = p
        yield memoryview(buf)[: len(p)]


def judge_e2e(payload, cbs, io_block):
    """asdf write (blsc) -> asdf.open with the given io_block_size -> same array."""
    import asdf

    env.register_asdf()
    scratch = os.environ.get('VERIF_SCRATCH')
    if not scratch:
        os.makedirs(os.path.join(env.VERIF, '.work'), exist_ok=True)
        scratch = tempfile.mkdtemp(dir=os.path.join(env.VERIF, '.work'))
    path = os.path.join(scratch, 'c14_e2e_%d.asdf' % os.getpid())
    seen = []
    import abacusnbody.data.asdf as aasdf

    orig = aasdf.BloscCompressor.decompress

    def counting(self, blocks, out, **kw):  # observes the chunk sizes only; passes the same objects through
        def gen():
            for b in blocks:
                seen.append(len(b))
                yield b

        return orig(self, gen(), out, **kw)

    try:
        with env.fixture_blsc_writer():
            af = asdf.AsdfFile({'data': payload})
            ckw = {'compression_block_size': int(cbs)} if cbs is not None else {}
            af.write_to(path, all_array_compression='blsc', compression_kwargs=ckw)
        aasdf.BloscCompressor.decompress = counting
        try:
            with asdf.config_context() as cfg:
                cfg.io_block_size = int(io_block)

                def rd():
                    with asdf.open(path, lazy_load=False, memmap=False) as f:
                        return np.array(f['data'][:])

                got = call_repo(rd, _sig='blsc-e2e-read-raised')
        finally:
            aasdf.BloscCompressor.decompress = orig
    finally:
        try:
            os.remove(path)
        except OSError:
            pass
    _extra['e2e_asdf_cases'] += 1
    _extra['chunks_fed'] += len(seen)
    if len(payload) and not seen:
        raise Reject('blsc decompressor was not used by asdf')
    if got.dtype != payload.dtype or got.shape != payload.shape or not np.array_equal(got, payload):
        raise Violation('blsc-e2e-bytes', 'asdf.open with io_block_size=%d returned a different array (n=%d item=%d)' % (io_block, len(payload), payload.dtype.itemsize))
    cls = ['e2e', 'chunking=e2e', 'e2e-chunks>1' if len(seen) > 1 else 'e2e-chunks<=1']
    _last.update(nt=False, classes=cls)
    return dict(nontrivial=False, classes=cls)


# --------------------------------------------------------------------------- fuzz-bytes codec (mirror of atheris.FuzzedDataProvider)


class _Bytes:
    """Pure-Python mirror of the two FuzzedDataProvider calls the fuzz target uses
    (ConsumeIntInRange takes bytes from the end, ConsumeBytes from the front)."""

    def __init__(self, data):
        self.d = bytes(data)
        self.lo = 0
        self.hi = len(self.d)

    def remaining(self):
        return self.hi - self.lo

    def int_in_range(self, a, b):
        rng = b - a
        res, off = 0, 0
        while (rng >> off) > 0 and self.remaining() > 0:
            self.hi -= 1
            res = (res << 8) | self.d[self.hi]
            off += 8
        if rng + 1 != 0:
            res %= rng + 1
        return a + res

    def take(self, n):
        n = min(n, self.remaining())
        out = self.d[self.lo : self.lo + n]
        self.lo += n
        return out


def _len_code(c):
    return c if c < 48 else 48 + (c - 48) * 40


def decode_fuzz(provider):
    """provider: object with int_in_range(a,b), take(n), remaining().  -> 'raw' descriptor."""
    item = ITEMS[provider.int_in_range(0, 3)]
    cbs = max(item, provider.int_in_range(1, 600))
    shuffle = provider.int_in_range(0, 2)
    slack = provider.int_in_range(0, 3)
    rep = provider.int_in_range(1, 6)
    nch = provider.int_in_range(0, 48)
    chunks = []
    for _ in range(nch):
        b = provider.int_in_range(0, 255)
        chunks.append([_len_code(b & 63), b >> 6])
    pay = provider.take(min(provider.remaining(), 1024))
    return dict(mode='raw', item=item, cbs=cbs, shuffle=shuffle, slack=slack, rep=rep, chunks=chunks, payload=pay.hex())


def encode_fuzz(d):
    """Inverse of decode_fuzz for seeds (len codes must be representable)."""
    ints = [(ITEMS.index(d['item']), 1), (d['cbs'] - 1, 2), (d['shuffle'], 1), (d['slack'], 1), (d['rep'] - 1, 1), (len(d['chunks']), 1)]
    for ln, t in d['chunks']:
        code = ln if ln < 48 else min(63, 48 + (ln - 48) // 40)
        ints.append(((t << 6) | code, 1))
    tail = b''
    for v, nb in ints:
        tail += int(v).to_bytes(nb, 'big')
    return bytes.fromhex(d['payload']) + tail[::-1]


def decode_fuzz_bytes(data):
    return decode_fuzz(_Bytes(data))


def _run_raw(d):
    item = int(d['item'])
    if item not in ITEMS:
        raise Reject('item size')
    raw = bytes.fromhex(d['payload']) * int(d.get('rep', 1))
    raw = raw[: len(raw) - len(raw) % item]
    payload = np.frombuffer(raw, dtype='u%d' % item).copy() if raw else np.zeros(0, dtype='u%d' % item)
    chunking = dict(kind='lens', lens=[c[0] for c in d['chunks']])
    types = [c[1] for c in d['chunks']] or [0]
    return judge(payload, int(d['cbs']), SHUFFLES[int(d['shuffle']) % 3], chunking, types, int(d.get('slack', 0)))


# --------------------------------------------------------------------------- atheris campaign


def seed_corpus_inputs():
    """Small seeded corpus: a few payloads with chunk lengths that cut inside prefixes and frames."""
    seeds = []
    for item, n, fill, cbs in [(4, 6, 'ramp', 8), (1, 5, 'ramp', 1), (8, 16, 'random', 64), (2, 100, 'text', 50), (4, 0, 'zeros', 4)]:
        pay = make_payload(item, n, fill, 5)
        stream = reference_stream(pay, cbs)
        frames = parse_frames(stream)
        variants = [[], [[1, 0]] * 40]
        if frames:
            f0 = frames[0]
            variants.append([[2, 1], [f0[2] + 3, 2], [0, 0], [1, 3], [5, 0]])
            variants.append([[3, 0], [1, 1], [f0[2] - 1, 0], [2, 2], [2, 0], [0, 1]])
            variants.append([[4 + f0[2], 0], [1, 0], [1, 0], [1, 0], [1, 0], [7, 0]])
        for ch in variants:
            d = dict(mode='raw', item=item, cbs=cbs, shuffle=0, slack=1, rep=1, chunks=ch, payload=pay.tobytes().hex())
            seeds.append(encode_fuzz(d))
    return seeds


def run_atheris(d):
    """Launch the libFuzzer/atheris campaign as a subprocess; a crash artifact is decoded back into a
    'raw' descriptor, re-judged in this process, and (if it fails here too) replaces `d` in place so that
    the saved replay is the failing input itself (replayable without atheris)."""
    scratch = os.environ.get('VERIF_SCRATCH')
    if not scratch:
        os.makedirs(os.path.join(env.VERIF, '.work'), exist_ok=True)
        scratch = tempfile.mkdtemp(dir=os.path.join(env.VERIF, '.work'))
    tag = 'c14_fuzz_%s_%d' % (d['corpus'], os.getpid())
    corpus = os.path.join(scratch, tag, 'corpus')
    art = os.path.join(scratch, tag, 'artifacts')
    os.makedirs(corpus, exist_ok=True)
    os.makedirs(art, exist_ok=True)
    if d['corpus'] == 'seeded':
        for i, b in enumerate(seed_corpus_inputs()):
            with open(os.path.join(corpus, 'seed%02d' % i), 'wb') as f:
                f.write(b)
    cmd = [env.PYTHON, FUZZ_SCRIPT, corpus, '-runs=%d' % int(d['runs']), '-seed=%d' % int(d['seed']), '-max_len=1100',
           '-artifact_prefix=' + art + os.sep, '-print_final_stats=1', '-timeout=60', '-rss_limit_mb=4096']
    e = env.worker_env(numba_threads=1)
    e['C14_FUZZ_OUT'] = art
    p = subprocess.run(cmd, cwd=env.VERIF, env=e, stdout=subprocess.PIPE, stderr=subprocess.STDOUT, timeout=3600)
    text = p.stdout.decode('utf-8', 'replace')
    execs = 0
    for line in text.splitlines():
        if 'stat::number_of_executed_units' in line:
            try:
                execs = int(line.split(':')[-1].strip())
            except ValueError:
                pass
    _extra['atheris_executions'] += execs
    _extra['atheris_campaigns'] += 1
    arts = sorted(fn for fn in os.listdir(art) if fn.startswith(('crash-', 'timeout-', 'oom-', 'leak-')))
    _last.update(nt=False, classes=['atheris-campaign', 'atheris-corpus=' + d['corpus']])
    try:
        if not arts:
            if p.returncode != 0 or execs == 0:
                raise RuntimeError('atheris campaign failed without an artifact (rc=%d):\n%s' % (p.returncode, text[-2500:]))
            return dict(nontrivial=False, classes=_last['classes'])
        _extra['atheris_crash_artifacts'] += len(arts)
        with open(os.path.join(art, arts[0]), 'rb') as f:
            data = f.read()
        found = decode_fuzz_bytes(data)
        dumped = os.path.join(art, 'failure.json')
        if os.path.exists(dumped):  # what the target itself decoded with atheris.FuzzedDataProvider
            with open(dumped) as f:
                theirs = json.load(f)
            if json.loads(dumps(found)) != theirs:
                found = theirs
        try:
            _run_raw(found)
        except Violation as v:
            note = 'found by atheris (%s corpus, seed %s, artifact %s after %d executions); ' % (d['corpus'], d['seed'], arts[0], execs)
            d.clear()
            d.update(found)  # the replay file now holds the failing input, not the campaign
            raise Violation(v.signature, note + v.detail)
        raise RuntimeError('atheris artifact %s does not reproduce in-process; fuzzer output:\n%s' % (arts[0], text[-2500:]))
    finally:
        import shutil

        shutil.rmtree(os.path.join(scratch, tag), ignore_errors=True)


# --------------------------------------------------------------------------- Hypothesis strategy


@st.composite
def _cut(draw):
    kind = draw(st.sampled_from(['p', 'p', 'p', 'b', 'b', 'i', 'i', 'r', 'a']))
    f = draw(st.integers(0, 40))
    if kind == 'p':
        a = draw(st.integers(0, 4))
    elif kind == 'b':
        a = draw(st.integers(0, 2))
    elif kind == 'i':
        a = draw(st.integers(0, 255))
    elif kind == 'r':
        a = draw(st.integers(0, 8))
    else:
        a = draw(st.integers(0, 30000))
    m = draw(st.integers(0, 7)) if kind == 'r' else 0
    return [kind, f, a, m]


@st.composite
def _desc(draw, tier='quick'):
    item = draw(st.sampled_from(ITEMS))
    n = draw(st.one_of(st.sampled_from([0, 1, 2, 3]), st.integers(0, 40), st.integers(0, 400), st.integers(0, 3000)))
    fill = draw(st.sampled_from(FILLS))
    seed = draw(st.integers(0, 2**32 - 1))
    how = draw(st.sampled_from(['frames', 'frames', 'frames', 'frames', 'one-item', 'huge', 'default']))
    if how == 'frames':
        nfr = draw(st.one_of(st.sampled_from([1, 2, 2, 3, 3, 4, 5, 8, 40]), st.integers(1, 40)))
        nelem = max(1, -(-n // nfr))
        cbs = nelem * item + draw(st.sampled_from([0, 0, 0] + list(range(item))))
    elif how == 'one-item':
        n = min(n, 40)
        cbs = item
    elif how == 'huge':
        cbs = (n + 1) * item + draw(st.integers(0, 5000))
    else:
        cbs = None
    shuffle = draw(st.sampled_from([0, 0, 0, 1, 2]))
    slack = draw(st.sampled_from([0, 0, 0, 1, 5, 64]))
    kind = draw(st.sampled_from(['cuts'] * 12 + ['single', 'ones', 'ones', 'fixed', 'fixed', 'fixed', 'e2e']))
    chunking = {'kind': kind}
    if kind == 'fixed':
        chunking['k'] = draw(st.one_of(st.integers(1, 8), st.integers(1, 64), st.integers(1, 5000)))
    elif kind == 'cuts':
        chunking['cuts'] = draw(st.lists(_cut(), min_size=1, max_size=12))
    elif kind == 'e2e':
        chunking['k'] = draw(st.one_of(st.just(-1), st.integers(1, 8), st.integers(1, 300), st.just(4096)))
    types = draw(st.one_of(st.just([0]), st.lists(st.integers(0, 3), min_size=1, max_size=4)))
    return dict(mode='gen', item=item, n=n, fill=fill, seed=seed, cbs=cbs, shuffle=shuffle, slack=slack, chunking=chunking, types=types)


def strategy(tier):
    return _desc(tier)


# --------------------------------------------------------------------------- exhaustive sub-space

_SMALL = {
    'A': dict(item=4, n=6, fill='ramp', seed=0, cbs=8),
    'B': dict(item=1, n=5, fill='ramp', seed=3, cbs=1),
    'C': dict(item=8, n=12, fill='random', seed=9, cbs=48),
    'D': dict(item=2, n=9, fill='text', seed=4, cbs=64),
}


def _exh_all(tier):
    names = ['A'] if tier == 'quick' else ['A', 'B', 'C', 'D']
    for nm in names:
        base = _SMALL[nm]
        pay = make_payload(base['item'], base['n'], base['fill'], base['seed'])
        stream = reference_stream(pay, base['cbs'])
        frames = parse_frames(stream)
        L = len(stream)

        def mk(chunking, types=(0,)):
            d = dict(mode='gen', shuffle=0, slack=0, chunking=chunking, types=list(types))
            d.update(base)
            return d

        for k in range(1, L + 1):
            yield mk({'kind': 'fixed', 'k': k}, types=(k % 4,))
        for a in range(0, L + 1):
            yield mk({'kind': 'cuts', 'cuts': [['a', 0, a, 0]]})
        for a in range(0, L + 1):
            for b in range(a, L + 1):
                yield mk({'kind': 'cuts', 'cuts': [['a', 0, a, 0], ['a', 0, b, 0]]})
        near = sorted({min(L, max(0, p + j)) for p, _f, _l in frames for j in range(-1, 6)})
        for i in range(len(near)):
            for j in range(i, len(near)):
                for k in range(j, len(near)):
                    yield mk({'kind': 'cuts', 'cuts': [['a', 0, near[i], 0], ['a', 0, near[j], 0], ['a', 0, near[k], 0]]}, types=(0, 3, 1))


def exhaustive(tier, shard, nshards):
    for i, d in enumerate(_exh_all(tier)):
        if i % nshards == shard:
            yield d
    if tier == 'thorough':
        seed = int(os.environ.get('VERIF_SEED', '1') or 1)
        runs = int(os.environ.get('C14_ATHERIS_RUNS', '100000'))
        if shard == 0:
            yield dict(mode='atheris', runs=runs, corpus='empty', seed=seed)
        if shard == (1 % nshards):
            yield dict(mode='atheris', runs=runs, corpus='seeded', seed=seed)


# --------------------------------------------------------------------------- entry points


def _key(d):
    return dumps(d)


def run_case(d):
    _last.update(key=None, nt=False, classes=[])
    mode = d.get('mode', 'gen')
    try:
        if mode == 'atheris':
            return run_atheris(d)
        if mode == 'raw':
            return _run_raw(d)
        if mode != 'gen':
            raise Reject('unknown mode')
        item = int(d['item'])
        if item not in ITEMS or d['fill'] not in FILLS:
            raise Reject('bad descriptor')
        payload = make_payload(item, int(d['n']), d['fill'], int(d['seed']))
        cbs = d['cbs']
        chunking = d['chunking']
        if chunking['kind'] == 'e2e':
            return judge_e2e(payload, cbs, int(chunking['k']))
        return judge(payload, cbs, SHUFFLES[int(d['shuffle']) % 3], chunking, d['types'], d['slack'])
    finally:
        _last['key'] = _key(d)


def nontrivial(d):
    return bool(_last['nt']) if _last['key'] == _key(d) else False


def classes(d):
    c = []
    mode = d.get('mode', 'gen')
    c.append('mode=' + mode)
    if mode in ('gen', 'raw'):
        c.append('item=%d' % d['item'])
    if mode == 'gen':
        c.append('n=0' if d['n'] == 0 else 'n>0')
        c.append('fill=' + d['fill'])
        if d['cbs'] is None:
            c.append('block=default')
        elif d['cbs'] % d['item']:
            c.append('block-not-multiple-of-item')
        if d['slack']:
            c.append('out-has-slack')
        if any(int(t) % 4 for t in d['types']):
            c.append('non-bytes-chunk-type')
    # layout-dependent classes come from run_case's return value (worker adds them)
    return c


if __name__ == '__main__':  # tiny self-test of the fuzz-bytes codec
    env.setup_path()
    for s in seed_corpus_inputs():
        dd = decode_fuzz_bytes(s)
        assert encode_fuzz(dd) == s, dd
    print('codec ok', len(seed_corpus_inputs()))
    sys.exit(0)
