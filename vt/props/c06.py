"""C06 — mass assignment conserves weight and applies the TSC/CIC kernel.

Oracle: float64 separable-kernel reference (vt.oracles.massassign) + the statement's laws checked directly
(total, non-negativity, additivity / accumulation into a supplied grid, whole-cell shifts roll the grid,
power_spectrum.get_field agrees after its documented normalisation).
"""
import warnings

import numpy as np
from hypothesis import strategies as st

from vt.core import Reject, Violation, call_repo
from vt.oracles import massassign as MA

ID = 'C06'
RULE = (
    'descriptor = TSC|CIC, grid shape (cubic/anisotropic 3..12 per axis; one-cell-thick z for the CIC 2-D case), BoxSize (dyadic and awkward), float32/64 positions and grid, '
    'weights none/non-negative/signed, sub-cell offset {0, h/2, random}, nthread/npartition/wrap, and per-particle per-axis position specs built by construction: uniform, cell centre, '
    'half-cell edge, each +-{0,1,2} ulp, 0, nextafter(L,0), exactly L, out of range by up to one box (TSC with wrap). '
    'non-trivial = some particle within 2 ulp of a rounding edge or a domain boundary, or anisotropic shape, or non-zero offset; distinct = descriptor hash.'
)
ASSUMPTIONS = [
    'tolerance per cell: 8*eps(position dtype)*(gmax+4)*sum|w| + 8*eps(grid dtype)*sum|w| (position->grid-coordinate rounding, kernel derivative <= 1, accumulation)',
    'TSC grids have every axis >= 3 cells (a 2-cell axis makes the -1/+1 neighbours coincide; not a documented TSC input); CIC positions lie in [0,L) because cic_serial does not wrap',
    'a multi-threaded TSC mismatch that disappears with nthread=1 is reported under the C07 root-cause signature tsc-concurrent-stripes',
]


def config(tier):
    if tier == 'quick':
        return dict(shards=8, examples=220, numba_threads=16, soft_s=170, shrink_calls=80)
    return dict(shards=16, examples=3500, numba_threads=16, soft_s=1300, shrink_calls=250)


AX_KINDS = ['uniform', 'uniform', 'centre', 'edge', 'edge', 'zero', 'Lminus', 'L', 'out']


@st.composite
def _desc(draw, tier):
    kind = draw(st.sampled_from(['tsc', 'tsc', 'cic']))
    cubic = draw(st.booleans())
    lo = 3
    if cubic:
        g = draw(st.integers(lo, 12))
        shape = [g, g, g]
    else:
        shape = [draw(st.integers(lo, 12)) for _ in range(3)]
    if kind == 'cic' and draw(st.integers(0, 4)) == 0:
        shape[2] = 1
    box = draw(st.sampled_from([1.0, 64.0, 123.0, 2000.0, 7.3, 0.37]))
    pd = draw(st.sampled_from(['f4', 'f4', 'f8']))
    gd = draw(st.sampled_from(['f4', 'f4', 'f8']))
    offk = draw(st.sampled_from(['0', '0', 'half', 'rand', 'neg']))
    # sub-cell offsets of either sign (a negative one shifts the deposit towards lower cells; negative grid indices wrap)
    offfrac = {'0': 0.0, 'half': 0.5, 'rand': draw(st.floats(0.0, 0.999)), 'neg': -draw(st.floats(0.05, 0.999))}[offk]
    if kind == 'cic':
        offfrac = 0.0
    wk = draw(st.sampled_from(['none', 'pos', 'pos', 'signed']))
    n = draw(st.one_of(st.integers(0, 12), st.integers(0, 120)))
    ax = st.tuples(st.sampled_from(AX_KINDS), st.integers(0, 40), st.integers(-2, 2), st.floats(0, 1, exclude_max=True))
    pts = draw(st.lists(st.tuples(ax, ax, ax, st.integers(-8, 8)), min_size=n, max_size=n))
    nthread = draw(st.sampled_from([1, 1, 2, 3, 4, 5, 7, 11, 13, 14, 16, -1]))  # -1 = all threads (16 in the workers)
    npart = draw(st.sampled_from([None, None, 1, 2, 3, 5]))  # odd values are accepted with one thread only
    if npart in (3, 5) and draw(st.booleans()):
        nthread = 1
    return dict(kind=kind, shape=shape, box=box, pd=pd, gd=gd, offfrac=offfrac, wk=wk, nthread=nthread, npartition=npart, wrap=draw(st.sampled_from([True, True, False])),
                coord=draw(st.integers(0, 2)), sort=draw(st.booleans()), gridlayout=draw(st.sampled_from(['C', 'C', 'C', 'F', 'view'])), pts=[[list(a), list(b), list(c), w] for a, b, c, w in pts],
                shift=[draw(st.integers(0, 2)), draw(st.integers(-13, 13))], seed=draw(st.integers(0, 2**31 - 1)), getfield=draw(st.booleans()))


def strategy(tier):
    return _desc(tier)


def _ulps(x, k, dt):
    x = dt(x)
    for _ in range(abs(k)):
        x = np.nextafter(x, dt(np.inf) if k > 0 else dt(-np.inf))
    return x


def build(d):
    """positions, weights, per-case class flags"""
    dt = np.float32 if d['pd'] == 'f4' else np.float64
    box = d['box']
    L = dt(box)
    shape = d['shape']
    tsc = d['kind'] == 'tsc'
    allow_L = tsc
    allow_out = tsc and d['wrap']
    flags = set()
    pos = np.empty((len(d['pts']), 3), dtype=dt)
    for i, (a, b, c, w) in enumerate(d['pts']):
        for j, (kind, idx, ul, fr) in enumerate((a, b, c)):
            g = shape[j]
            h = box / g
            off = d['offfrac'] * box / max(shape)  # the one scalar offset the API takes (sub-cell on every axis)
            if kind == 'centre':
                x = _ulps((idx % (g + 1)) * h - off, ul, dt)
                flags.add('centre')
            elif kind == 'edge':
                x = _ulps(((idx % g) + 0.5) * h - off, ul, dt)
                flags.add('edge')
            elif kind == 'zero':
                x = dt(0.0)
                flags.add('boundary')
            elif kind == 'Lminus':
                x = np.nextafter(L, dt(0))
                flags.add('boundary')
            elif kind == 'L' and allow_L:
                x = L
                flags.add('at-L')
            elif kind == 'out' and allow_out:
                x = dt(fr * box) + (L if idx % 2 else -L)
                flags.add('out-of-range')
            else:
                x = dt(fr * box)
            x = dt(x)
            # keep inside the documented domain
            lo, hi = (dt(-box), dt(2 * box)) if (allow_out and kind == 'out') else (dt(0.0), L)
            if not (x >= lo):
                x = dt(0.0)
            if x > hi:
                x = hi
            if not allow_L and not (kind == 'out' and allow_out) and x >= L:
                x = np.nextafter(L, dt(0))
            if dt is np.float32 and float(x) >= box and not (allow_L or allow_out):
                x = np.nextafter(x, dt(0))
            pos[i, j] = x
    if d['kind'] == 'cic':
        # cic_serial divides by the float64 box: require x/box*g < g strictly
        bad = pos.astype(np.float64) >= box
        while bad.any():
            pos[bad] = np.nextafter(pos[bad], dt(0))
            bad = pos.astype(np.float64) >= box
    if d['wk'] == 'none':
        w = None
    else:
        raw = np.array([p[3] for p in d['pts']], dtype=np.float64)
        w = (np.abs(raw) * 0.25 if d['wk'] == 'pos' else raw * 0.25).astype(dt)
    return pos, w, flags


def nontrivial(d):
    if d['offfrac'] != 0 or len(set(d['shape'])) > 1:
        return len(d['pts']) > 0
    for a, b, c, w in d['pts']:
        for kind, *_ in (a, b, c):
            if kind in ('centre', 'edge', 'zero', 'Lminus', 'L', 'out'):
                return True
    return False


def classes(d):
    c = [d['kind'], 'pos=' + d['pd'], 'grid=' + d['gd'], 'weights=' + d['wk'], 'offset=' + ('0' if d['offfrac'] == 0 else 'half' if d['offfrac'] == 0.5 else 'neg' if d['offfrac'] < 0 else 'rand'),
         'cubic' if len(set(d['shape'])) == 1 else ('flat-z' if d['shape'][2] == 1 else 'anisotropic'), 'nthread=%d' % d['nthread'], 'n=0' if not d['pts'] else 'n>0', 'gridlayout=' + d.get('gridlayout', 'C'), 'npartition=' + str(d['npartition'])]
    return c


def _alloc(d, shape, gdt, fill=None):
    """the supplied grid: C-ordered, Fortran-ordered, or the [:, :, :n] view of a padded (n+2) buffer (as used for in-place FFTs)"""
    lay = d.get('gridlayout', 'C')
    if lay == 'F':
        g = np.zeros(shape, dtype=gdt, order='F')
    elif lay == 'view':
        g = np.zeros((shape[0], shape[1], shape[2] + 2), dtype=gdt)[:, :, : shape[2]]
    else:
        g = np.zeros(shape, dtype=gdt)
    if fill is not None:
        g[...] = fill
    return g


def _wrap_ref(pos, box):
    p = pos.astype(np.float64).copy()
    p[p >= box] -= box
    p[p < 0] += box
    return p


def _deposit(d, pos, w, grid, nthread=None, npartition='desc', same_array=False):
    """run the code under test; returns the offset used (deposits accumulate into `grid`). The code gets a private copy of the
    positions unless same_array (then it gets `pos` itself: used to deposit an array a second time, as left by the first call)"""
    box = d['box']
    arg = pos if same_array else pos.copy()
    if d['kind'] == 'tsc':
        import abacusnbody.analysis.tsc as tsc

        dt = pos.dtype.type
        h = box / d['shape'][0]
        offset = 0.0
        if d['offfrac'] != 0:
            # one scalar offset for all axes (as the API has it): offfrac of the *smallest* cell so it stays sub-cell on every axis
            offset = float(d['offfrac'] * box / max(d['shape']))
        with warnings.catch_warnings():
            warnings.simplefilter('ignore')
            call_repo(tsc.tsc_parallel, arg, grid, box, weights=None if w is None else w.copy(), nthread=d['nthread'] if nthread is None else nthread,
                      wrap=d['wrap'], npartition=(d['npartition'] if npartition == 'desc' else npartition), sort=d['sort'], coord=d['coord'], offset=offset)
        return offset
    else:
        from abacusnbody.analysis.cic import cic_serial

        call_repo(cic_serial, arg, grid, box, weights=None if w is None else w.copy())
        return 0.0


def _tol(d, w, n):
    sw = float(np.sum(np.abs(w))) if w is not None else float(n)
    epp = np.finfo(np.float32 if d['pd'] == 'f4' else np.float64).eps
    epg = np.finfo(np.float32 if d['gd'] == 'f4' else np.float64).eps
    return (8 * epp * (max(d['shape']) + 4) + 8 * epg) * sw + 1e-300


def run_case(d):
    pos, w, flags = build(d)
    shape = tuple(d['shape'])
    box = d['box']
    gdt = np.float32 if d['gd'] == 'f4' else np.float64
    n = len(pos)
    flat = d['kind'] == 'cic' and shape[2] == 1
    # out-of-range positions need wrap (TSC); without wrap everything is in [0,L]
    grid = _alloc(d, shape, gdt)
    try:
        offset = _deposit(d, pos, w, grid)
    except Violation as v:
        # an explicit npartition > 2 with several threads may be refused (odd, or stripes narrower than 4 cells): C07 judges that rule
        if v.signature.startswith('raised:ValueError') and d['kind'] == 'tsc' and d['nthread'] != 1 and d['npartition'] not in (None, 1, 2):
            raise Reject('configuration rejected by tsc_parallel')
        raise
    pref = _wrap_ref(pos, box) if (d['kind'] == 'tsc' and d['wrap']) else pos.astype(np.float64)
    ref = MA.reference(pref, shape, box, weights=w, offset=offset, kind=d['kind'], flat_z=flat)
    tol = _tol(d, w, n)
    err = float(np.abs(grid.astype(np.float64) - ref).max()) if grid.size else 0.0
    cls = sorted(flags)
    if not (err <= tol):
        if d['kind'] == 'tsc' and d['nthread'] != 1:
            g1 = np.zeros(shape, dtype=gdt)
            _deposit(d, pos, w, g1, nthread=1, npartition=None)
            if float(np.abs(g1.astype(np.float64) - ref).max()) <= tol:
                raise Violation('tsc-concurrent-stripes', 'multi-threaded deposit differs from the reference by %g (tolerance %g) but the single-threaded deposit matches: lost/doubled update between concurrent stripes' % (err, tol))
        i = np.unravel_index(int(np.argmax(np.abs(grid.astype(np.float64) - ref))), shape)
        raise Violation('%s-kernel-mismatch' % d['kind'], 'cell %s: got %r, separable-kernel reference %r (|diff| %g > tol %g); shape=%s box=%r offset=%r n=%d' % (tuple(map(int, i)), float(grid[i]), float(ref[i]), err, tol, shape, box, offset, n))
    if n >= 1:
        # history: the same array deposited twice (the interlaced estimator does exactly that, with two different offsets). Whatever
        # the first call leaves in the caller's array (TSC wraps it in place), a second deposit of it is the same deposit.
        parr = pos.copy()
        ga = np.zeros(shape, dtype=gdt)
        _deposit(d, parr, w, ga, same_array=True)
        gb = np.zeros(shape, dtype=gdt)
        _deposit(d, parr, w, gb, same_array=True)
        errb = float(np.abs(gb.astype(np.float64) - ref).max()) if gb.size else 0.0
        if not (errb <= tol):
            raise Violation('%s-second-deposit-of-same-array-differs' % d['kind'], 'depositing the array a second time (as the first call left it) differs from the reference by %g (tol %g); first deposit of it: %g; offset=%r' % (errb, tol, float(np.abs(ga.astype(np.float64) - ref).max()), offset))
    # conservation
    sw = float(np.sum(w.astype(np.float64))) if w is not None else float(n)
    tot = float(grid.sum(dtype=np.float64))
    sabs = float(np.sum(np.abs(w))) if w is not None else float(n)
    epp = np.finfo(np.float32 if d['pd'] == 'f4' else np.float64).eps
    if not (abs(tot - sw) <= (64 * epp + 4 * np.finfo(gdt).eps * (n + 1)) * sabs + 1e-300):
        raise Violation('%s-total-weight' % d['kind'], 'grid total %r != total weight %r' % (tot, sw))
    if d['wk'] in ('none', 'pos') and n and float(grid.min()) < 0:
        raise Violation('%s-negative-deposit' % d['kind'], 'min cell %r with non-negative weights' % float(grid.min()))
    if n >= 2:
        # accumulation into a supplied non-zero grid + additivity over particles
        rng = np.random.Generator(np.random.PCG64(d['seed']))
        base = rng.uniform(-1, 1, size=shape).astype(gdt)
        g2 = _alloc(d, shape, gdt, fill=base)
        A = np.arange(n) % 2 == 0
        _deposit(d, pos[A], None if w is None else w[A], g2)
        _deposit(d, pos[~A], None if w is None else w[~A], g2)
        err2 = float(np.abs(g2.astype(np.float64) - (base.astype(np.float64) + ref)).max())
        if not (err2 <= tol + 8 * np.finfo(gdt).eps * (1 + float(np.abs(ref).max()))):
            raise Violation('%s-not-additive' % d['kind'], 'deposit(A) then deposit(B) into a supplied non-zero grid differs from base + reference(A u B) by %g (tol %g)' % (err2, tol))
    if n >= 1:
        # shifting all particles by whole cells rolls the grid
        axis, k = d['shift']
        if not (flat and axis == 2):
            g = shape[axis]
            dt = pos.dtype.type
            sh = pos.astype(np.float64).copy()
            sh[:, axis] = sh[:, axis] + k * (box / g)
            if d['kind'] == 'tsc' and d['wrap'] and abs(k) <= g:
                p3 = sh.astype(dt)  # may leave [0,L) by up to one box: wrap=True brings it back
                ok = bool(np.all((p3.astype(np.float64) >= -box) & (p3.astype(np.float64) < 2 * box)))
            else:
                sh[:, axis] = np.mod(sh[:, axis], box)
                p3 = sh.astype(dt)
                ok = bool(np.all((p3.astype(np.float64) >= 0) & (p3.astype(np.float64) < box)))
            if ok:
                g3 = np.zeros(shape, dtype=gdt)
                _deposit(d, p3, w, g3)
                want = np.roll(ref, k, axis=axis)
                # extra position rounding from the shift itself: ulp(position) * g / L per particle
                tol3 = tol * 2 + 4 * np.finfo(dt).eps * (abs(k) + g) * (float(np.sum(np.abs(w))) if w is not None else n)
                err3 = float(np.abs(g3.astype(np.float64) - want).max())
                if not (err3 <= tol3):
                    raise Violation('%s-shift-does-not-roll' % d['kind'], 'shift by %d cells along axis %d: max diff to rolled grid %g (tol %g)' % (k, axis, err3, tol3))
                cls.append('shifted')
    if d['getfield'] and n >= 1 and len(set(shape)) == 1 and d['gd'] == 'f4' and not flat:
        from abacusnbody.analysis import power_spectrum as ps

        dd = float(d['offfrac'] * box / shape[0])
        pin = pos.copy()
        if d['kind'] == 'cic':
            # get_field shifts CIC positions itself (pos + d); keep pos + d inside [0, L]
            # (positions + d may reach [L, L + h/2): that is what the interlaced estimator passes; the kernel's right-wrap covers it)
            dd = float(d['shift'][1] % 2) * 0.5 * box / shape[0]
        with warnings.catch_warnings():
            warnings.simplefilter('ignore')
            f = call_repo(ps.get_field, pin, box, shape[0], d['kind'].upper(), w=None if w is None else w.copy(), d=dd, nthread=(16 if d['nthread'] < 0 else d['nthread']))  # get_field documents a thread count, not the -1 spelling
        pr = _wrap_ref(pos, box) if d['kind'] == 'tsc' else pos.astype(np.float64)
        rf = MA.reference(pr, shape, box, weights=w, offset=dd, kind=d['kind'])
        want = rf * (rf.size / float(n)) - 1.0
        tolf = (tol + 4 * np.finfo(np.float32).eps * (float(np.abs(rf).max()) + 1)) * (rf.size / float(n)) + 4 * np.finfo(np.float32).eps
        errf = float(np.abs(np.asarray(f, dtype=np.float64) - want).max())
        if not (errf <= tolf):
            raise Violation('get_field-mismatch', '%s get_field(d=%r) differs from reference*ncell/N - 1 by %g (tol %g)' % (d['kind'], dd, errf, tolf))
        cls.append('get_field')
    return {'classes': cls}
