"""C02 — a halo column's values do not depend on what else was requested.

Differential oracle, exact (NaN-aware) equality: halos[col] from fields=[col] must equal halos[col] from
fields=[col,*others] in any order, from 'all', from the default set, with or without subsamples; no load may raise.
History clause ("depend only on the catalog files and the unit option"): for one column of each unit family the load made
in the long-lived worker, right after a twin catalog with another BoxSize / VelZSpace_to_kms was loaded, must be bit-identical
to the same load made by a fresh interpreter (python -m vt.fresh_load) that has never seen another catalog.
"""
import os
import warnings

import numpy as np
from hypothesis import strategies as st

from vt import env
from vt.core import Violation
from vt.gen import catalog as G

ID = 'C02'
RULE = (
    'descriptor = small synthetic catalog + (layout box/lc, cleaned, convert_units) + target column drawn from all valid names + ordered list of '
    'co-requested columns (biased: dependencies of the target, different dtype/shape listed last, cleaned columns last) + subsample selection; '
    'plus an enumerated sub-space: every valid column alone vs "all" (box cleaned, box uncleaned, light cone). '
    'non-trivial = target is a derived column (ratio, sigmavMid, eigenvector, interp) or the last-listed co-requested column has a different dtype/shape than the target; '
    'distinct = (target, ordered co-request list, flags, catalog) hash.'
)
ASSUMPTIONS = [
    'npstart/npout{A,B} are compared only between loads with the same subsample selection (they are defined to be rewritten when subsamples load)',
    'blosc codec replaced by the zlib stand-in for blsc fixtures',
    'the fresh-interpreter differential is run for 16 (quick) / 48 (thorough) enumerated cases only (about 3 s of imports each); a failure of the fresh interpreter to load what the worker could load is reported as a violation',
]
EXHAUSTIVE_NOTE = {
    'quick': 'every compressed-ratio column with the column it is relative to listed before and after it; every valid column name requested alone vs through fields="all" (and the default set where it contains it): box-cleaned (incl. main-progenitor columns), box-uncleaned and light-cone layouts, one fixed catalog each; every ordered pair of cleaning columns involving a main-progenitor column (both list positions); 16 fresh-interpreter differentials (one column per unit family) after a twin catalog with a different header was loaded',
    'thorough': 'same as quick on three fixed catalogs per layout (48 fresh-interpreter differentials), plus every ordered pair (target, last-listed column) for derived targets',
}

_names = None


def names():
    global _names
    if _names is None:
        from abacusnbody.data import compaso_halo_catalog as chc

        user = list(chc.user_dt.names)
        clean = list(chc.clean_dt_progen.names)
        default_clean = list(chc.clean_dt.names)
        lc = list(chc.halo_lc_dt.names)
        _names = dict(user=user, clean=clean, default_clean=default_clean, lc=lc, dt=dict(user=chc.user_dt, clean=chc.clean_dt_progen, lc=chc.halo_lc_dt))
    return _names


# static copies for the strategy (the strategy must not import the code under test lazily in odd places);
# validated against the live dtypes in setup()
USER = None


def valid_columns(layout, cleaned):
    n = names()
    if layout == 'lc':
        return [f for f in n['user'] if 'L2' in f] + [f for f in n['lc'] if f not in ()]
    cols = list(n['user'])
    if cleaned:
        cols += [c for c in n['clean'] if c not in cols]
    return cols


def family(col):
    import re

    if re.fullmatch(r'sigmavMid_(L2)?com', col):
        return 'sigmavMid'
    if 'eigenvecs' in col:
        return 'eigvec'
    if col in ('pos_interp', 'vel_interp'):
        return 'interp'
    if re.fullmatch(r'(r\d{1,2}|rvcirc_max|sigmav(Min|Maj|rad|tan)|sigmar|sigman)_(L2)?com', col):
        return 'ratio'
    if col in ('N', 'N_total'):
        return 'N'
    if col.startswith('npstart') or col.startswith('npout'):
        return 'index'
    if 'mainprog' in col:
        return 'mainprog'
    return 'plain'


def _base_of(col):
    """the column a compressed-ratio column is relative to (shares its raw input), or None"""
    import re

    m = re.fullmatch(r'(?:r\d{1,2}|rvcirc_max|sigmar)(_(?:L2)?com)', col)
    if m:
        return 'r100' + m.group(1)
    m = re.fullmatch(r'sigmav(?:Min|Maj|Mid|rad|tan)(_(?:L2)?com)', col)
    if m:
        return 'sigmav3d' + m.group(1)
    return None


def extra_evidence():
    return dict(_hist)


def config(tier):
    if tier == 'quick':
        return dict(shards=16, examples=10, numba_threads=1, soft_s=170, shrink_calls=30)
    return dict(shards=16, examples=130, numba_threads=1, soft_s=1300, shrink_calls=120)


_FRESH = ['x_com', 'v_com', 'r50_com', 'sigmavMaj_com', 'SO_radius', 'r100_L2com', 'sigmav3d_com', 'pos_interp', 'vcirc_max_com', 'rvcirc_max_L2com', 'sigmar_com', 'sigmavMid_com', 'x_L2com', 'meanSpeed_com', 'N', 'vel_avg']
_hist = {'fresh_process_comparisons': 0}


def _fixed_cat(layout, k):
    halos = [{'A': [1, 2, 1, 0], 'B': [0, 1, 0, 1], 'gone': False}, {'A': [0, 0, 0, 0], 'B': [2, 3, 2, 0], 'gone': True}, {'A': [2, 1, 2, 1], 'B': [0, 0, 0, 0], 'gone': False}]
    slabs = [{'index': 0, 'halos': halos, 'tailA': 1, 'tailB': 0}]
    if layout != 'lc':
        slabs.append({'index': 2, 'halos': halos[:2][::-1], 'tailA': 0, 'tailB': 2})
    return {'layout': layout, 'box': [500.0, 32.0, 123.456][k % 3], 'velz': [3200.0, 1234.5, 0.37][k % 3], 'ppd': 64, 'nprev': 1 + k % 3, 'compression': 'none', 'seed': 1000 + k, 'slabs': slabs}


def exhaustive(tier, shard, nshards):
    ncat = 1 if tier == 'quick' else 3
    k = 0
    for layout, cleaned in (('box', True), ('box', False), ('lc', True)):
        for c in range(ncat):
            for col in valid_columns(layout, cleaned):
                k += 1
                if k % nshards != shard:
                    continue
                yield {'cat': _fixed_cat(layout, c), 'cleaned': cleaned, 'convert_units': True, 'target': col, 'others': [], 'pos': 0, 'modes': ['all', 'default'], 'sub': None}
    # index / cleaning columns requested alone while subsamples are loaded (the loader must add whatever else it needs)
    for cleaned in (True, False):
        for col in ['npstartA', 'npoutA', 'npstartB', 'npoutB'] + (['npstartA_merge', 'npoutA_merge', 'npstartB_merge', 'npoutB_merge', 'N_total'] if cleaned else []):
            for AB in ('A', 'AB'):
                if col.endswith('_merge'):
                    # the *_merge index columns of a loaded subsample are consumed (folded into npstart/npout and removed) by design:
                    # request them together with the *other* subsample only
                    AB = 'B' if 'A_merge' in col else 'A'
                k += 1
                if k % nshards != shard:
                    continue
                yield {'cat': _fixed_cat('box', 2), 'cleaned': cleaned, 'convert_units': True, 'target': col, 'others': [], 'pos': 0, 'modes': [], 'sub': {'AB': AB, 'cols': ['pos', 'pid']}}
    for layout, cleaned in (('box', False), ('lc', True)):
        cols = valid_columns(layout, cleaned)
        for col in cols:
            b = _base_of(col)
            if b is None or b not in cols:
                continue
            for pos in (0, 1):
                k += 1
                if k % nshards != shard:
                    continue
                yield {'cat': _fixed_cat(layout, 1), 'cleaned': cleaned, 'convert_units': True, 'target': col, 'others': [b], 'pos': pos, 'modes': [], 'sub': None}
    # cleaning / main-progenitor columns (per-epoch (N, nprev) and single-epoch ones) in every order of every pair
    cl = [c for c in names()['clean']]
    for a in cl:
        for b in cl:
            if a == b or not ('mainprog' in a or 'mainprog' in b):
                continue
            for pos in (0, 1):
                k += 1
                if k % nshards != shard:
                    continue
                yield {'cat': _fixed_cat('box', 1), 'cleaned': True, 'convert_units': True, 'target': a, 'others': [b], 'pos': pos, 'modes': [], 'sub': None}
    # process-history independence: one column of each unit family, compared with a load in a fresh interpreter (one case per shard in
    # the quick tier: 16 consecutive k)
    for c in range(1 if tier == 'quick' else 3):
        for col in _FRESH:
            layout = 'lc' if col in ('pos_interp', 'vel_avg') else 'box'
            k += 1
            if k % nshards != shard:
                continue
            yield {'cat': _fixed_cat(layout, c), 'cleaned': layout == 'lc' or col == 'N', 'convert_units': col != 'meanSpeed_com', 'target': col, 'others': [], 'pos': 0, 'modes': [], 'sub': None, 'fresh': True}
    if tier == 'thorough':
        for layout, cleaned in (('box', True), ('box', False), ('lc', True)):
            cols = valid_columns(layout, cleaned)
            for col in cols:
                if family(col) not in ('sigmavMid', 'eigvec', 'interp'):
                    continue
                for last in cols:
                    if last == col:
                        continue
                    k += 1
                    if k % nshards != shard:
                        continue
                    yield {'cat': _fixed_cat(layout, 0), 'cleaned': cleaned, 'convert_units': True, 'target': col, 'others': [last], 'pos': 0, 'modes': [], 'sub': None}


@st.composite
def _desc(draw, tier):
    layout = draw(st.sampled_from(['box', 'box', 'box', 'lc']))
    cat = draw(G.catalog_strategy(layouts=(layout,), max_slabs=2, max_halos=4, compressions=('none', 'none', 'none', 'zlib', 'blsc')))
    cleaned = True if layout == 'lc' else draw(st.booleans())
    cols = valid_columns(layout, cleaned)
    # bias towards derived targets
    derived = [c for c in cols if family(c) in ('sigmavMid', 'eigvec', 'interp', 'ratio')]
    target = draw(st.one_of(st.sampled_from(cols), st.sampled_from(derived)))
    others = draw(st.lists(st.sampled_from(cols), min_size=0, max_size=6, unique=True))
    others = [c for c in others if c != target]
    # biased tails: something of a different dtype/shape listed last; a dependency of the target
    tail = draw(st.sampled_from(['none', 'uint', 'vec', 'dep', 'clean', 'base', 'prog']))
    pool = {
        'uint': [c for c in cols if family(c) in ('N', 'plain') and c in ('N', 'id', 'L0_N', 'ntaggedA', 'N_interp', 'index_halo', 'origin', 'L2_N')],
        'vec': [c for c in cols if c.startswith('x_') or c.startswith('v_') or c.startswith('SO') or 'eigenvecs' in c or c.startswith('sigmar') or c in ('pos_avg',)],
        'dep': [c for c in cols if c.startswith('sigmavM') or c.startswith('sigmav3d') or c.startswith('r100') or 'eigenvecs' in c or c in ('pos_avg', 'vel_avg', 'pos_interp', 'vel_interp')],
        'clean': [c for c in cols if c in names()['clean']],
        'none': [],
        'prog': [c for c in cols if 'mainprog' in c],
        'base': [_base_of(target)] if _base_of(target) in cols else [],
    }[tail]
    pool = [c for c in pool if c != target]
    if pool:
        last = draw(st.sampled_from(pool))
        others = [c for c in others if c != last] + [last]
    pos = draw(st.integers(0, len(others)))
    if draw(st.booleans()):
        pos = 0
    modes = draw(st.lists(st.sampled_from(['all', 'default']), max_size=2, unique=True))
    sub = None
    if draw(st.booleans()):
        sub = {'AB': draw(st.sampled_from(['A', 'B', 'AB'])), 'cols': draw(st.lists(st.sampled_from(['pos', 'vel', 'pid']), min_size=1, max_size=3, unique=True))}
    return {'cat': cat, 'cleaned': cleaned, 'convert_units': draw(st.sampled_from([True, True, False])), 'target': target, 'others': others, 'pos': pos, 'modes': modes, 'sub': sub}


def strategy(tier):
    return _desc(tier)


def _dt(col):
    n = names()
    for k in ('user', 'lc', 'clean'):
        if col in n['dt'][k].names:
            return str(n['dt'][k][col])
    return '?'


def nontrivial(d):
    if d.get('fresh') or family(d['target']) in ('sigmavMid', 'eigvec', 'interp', 'ratio'):
        return True
    if d['others']:
        seq = list(d['others'])
        seq.insert(d['pos'], d['target'])
        return _dt(seq[-1]) != _dt(d['target'])
    return False


def classes(d):
    c = ['layout=' + d['cat']['layout'], 'cleaned=%s' % d['cleaned'], 'family=' + family(d['target']), 'n_others=%d' % min(len(d['others']), 4), 'sub=' + ('none' if not d['sub'] else d['sub']['AB'])]
    for m in d['modes']:
        c.append('mode=' + m)
    if not d['convert_units']:
        c.append('convert_units=False')
    if d.get('fresh'):
        c.append('fresh-process-differential')
    return c


def _same(a, b):
    a = np.asarray(a)
    b = np.asarray(b)
    if a.shape != b.shape or a.dtype != b.dtype:
        return False
    if a.dtype.kind == 'f':
        return bool(np.array_equal(a, b, equal_nan=True))
    return bool(np.array_equal(a, b))


def run_case(d):
    from abacusnbody.data.compaso_halo_catalog import CompaSOHaloCatalog

    cdesc = d['cat']
    root = G.scratch_root('c02')
    cat = G.build(cdesc, root)
    try:
        return _check(cat, d, CompaSOHaloCatalog)
    finally:
        G.destroy(cat)


def _load(cat, d, CompaSOHaloCatalog, fields, sub):
    kw = dict(cleaned=bool(d['cleaned']), fields=fields, convert_units=bool(d['convert_units']))
    if sub:
        s = {k: True for k in sub['AB']}
        for c in ('pos', 'vel', 'pid'):
            s[c] = c in sub['cols']
        kw['subsamples'] = s
    with warnings.catch_warnings():
        warnings.simplefilter('ignore')
        try:
            return CompaSOHaloCatalog(cat.groupdir, **kw)
        except Exception as e:
            import traceback

            tb = traceback.extract_tb(e.__traceback__)
            where = [f.name for f in tb if 'abacusnbody' in f.filename]
            shown = dict(kw)
            if sub:
                shown['subsamples'] = dict(sub)
            raise Violation('load-raised:%s:%s' % (type(e).__name__, where[-1] if where else '?'), 'target %r: CompaSOHaloCatalog(%r) raised %s: %s' % (d['target'], shown, type(e).__name__, str(e)[:400]))


class _Consumed(Exception):
    pass


def _check_history(cat, d, CompaSOHaloCatalog, target, tname, fam, get):
    """'depend only on the catalog files and the unit option': not on what this process loaded before. A twin catalog (same
    layout, different BoxSize / VelZSpace_to_kms / data) is loaded first, then the target from `cat`; the result must be bit-identical
    to what a fresh interpreter, which has never seen another catalog, loads from the same files."""
    import copy
    import subprocess

    tdesc = copy.deepcopy(d['cat'])
    tdesc['box'] = float(tdesc['box']) * 2 + 1.5
    tdesc['velz'] = float(tdesc['velz']) * 3 + 0.25
    tdesc['seed'] = int(tdesc['seed']) + 1
    twin = G.build(tdesc, G.scratch_root('c02twin'))
    try:
        _load(twin, d, CompaSOHaloCatalog, [target], None)
    finally:
        G.destroy(twin)
    after = get(_load(cat, d, CompaSOHaloCatalog, [target], None), 'alone, after another catalog was loaded')
    out = os.path.join(cat.root, 'fresh.npy')
    r = subprocess.run([env.PYTHON, '-m', 'vt.fresh_load', cat.groupdir, str(int(bool(d['cleaned']))), str(int(bool(d['convert_units']))), target, tname, out],
                       env=env.worker_env(numba_threads=1), cwd=env.VERIF, capture_output=True, text=True, timeout=600)
    if r.returncode != 0 or not os.path.exists(out):
        raise Violation('fresh-process-load-failed:' + fam, 'a fresh interpreter could not load %r alone although this process could: %s' % (target, (r.stderr or '')[-400:]))
    fresh = np.load(out)
    _hist['fresh_process_comparisons'] += 1
    if not _same(after, fresh):
        raise Violation('value-depends-on-process-history:' + fam, 'column %r loaded alone in a process that had loaded a catalog with another header before differs from the same load in a fresh interpreter (dtype %s vs %s, shape %s vs %s)' % (target, after.dtype, fresh.dtype, after.shape, fresh.shape))


def _check(cat, d, CompaSOHaloCatalog):
    try:
        return _check_inner(cat, d, CompaSOHaloCatalog)
    except _Consumed:
        return {'classes': ['merge-column-consumed-by-subsample-load'], 'nontrivial': False}


def _check_inner(cat, d, CompaSOHaloCatalog):
    target = d['target']
    lc = cat.lc
    cleaned = bool(d['cleaned'])
    # name under which the target appears in the table
    tname = target
    if cleaned and not lc and target in ('N', 'N_total'):
        tname = 'N'
    fam = family(target)
    is_index = fam == 'index' and not lc

    def get(c, how):
        if tname not in c.halos.colnames and target.endswith('_merge') and 'subsamples' in how and d['sub'] and target[len('npstart') if target.startswith('npstart') else len('npout')] in d['sub']['AB']:
            raise _Consumed()
        if tname not in c.halos.colnames:
            raise Violation('column-missing:' + fam, 'requested column %r absent from halo table when loaded %s (columns: %s)' % (target, how, c.halos.colnames[:12]))
        return np.array(c.halos[tname], copy=True)

    base_c = _load(cat, d, CompaSOHaloCatalog, [target], None)
    base = get(base_c, 'alone')
    nrow = sum(S.n for S in cat.slabs)
    if len(base) != nrow:
        raise Violation('row-count', 'alone: %d rows, catalog has %d' % (len(base), nrow))

    def compare(c, how, same_sub_as_base=True):
        v = get(c, how)
        if is_index and not same_sub_as_base:
            return v
        if not _same(v, base):
            bad = None
            try:
                m = ~(np.isclose(np.asarray(v, dtype=np.float64), np.asarray(base, dtype=np.float64), rtol=0, atol=0, equal_nan=True))
                idx = np.argwhere(m)
                bad = idx[0].tolist() if len(idx) else None
            except Exception:
                pass
            raise Violation('value-differs:' + fam, 'column %r loaded %s differs from the same column loaded alone (dtype %s vs %s, shape %s vs %s, first differing index %s: %r vs %r)' % (
                target, how, v.dtype, base.dtype, v.shape, base.shape, bad, v[tuple(bad)] if bad else None, base[tuple(bad)] if bad else None))
        return v

    others = list(d['others'])
    if others:
        seq = list(others)
        seq.insert(d['pos'], target)
        asked = list(seq)
        c = _load(cat, d, CompaSOHaloCatalog, seq, None)
        compare(c, 'with %r' % (asked,))
        # history: the caller keeps its request in a list and uses the same list object again. The second load must hand out the
        # same columns with the same values (a reader that edits the caller's list in place breaks this)
        c2 = _load(cat, d, CompaSOHaloCatalog, seq, None)
        for name in c.halos.colnames:
            if name not in c2.halos.colnames:
                raise Violation('second-load-from-same-list-differs', 'fields list object %r passed twice: column %r present after the first load, absent after the second (list is now %r)' % (asked, name, seq))
            if not _same(np.asarray(c.halos[name]), np.asarray(c2.halos[name])):
                raise Violation('second-load-from-same-list-differs', 'fields list object %r passed twice: column %r differs between the two loads' % (asked, name))
        if list(c2.halos.colnames) != list(c.halos.colnames):
            raise Violation('second-load-from-same-list-differs', 'fields list object %r passed twice: columns %r then %r' % (asked, c.halos.colnames, c2.halos.colnames))
    for m in d['modes']:
        if m == 'all':
            c = _load(cat, d, CompaSOHaloCatalog, 'all', None)
            compare(c, "through fields='all'")
        elif m == 'default':
            c = _load(cat, d, CompaSOHaloCatalog, 'DEFAULT_FIELDS', None)
            if tname in c.halos.colnames:
                compare(c, 'through the default field set')
    if d.get('fresh'):
        _check_history(cat, d, CompaSOHaloCatalog, target, tname, fam, get)
    if d['sub']:
        # with subsamples: alone, and with the others
        c1 = _load(cat, d, CompaSOHaloCatalog, [target], d['sub'])
        v1 = compare(c1, 'alone with subsamples %r' % (d['sub'],), same_sub_as_base=False)
        if others:
            seq = list(others)
            seq.insert(d['pos'], target)
            c2 = _load(cat, d, CompaSOHaloCatalog, seq, d['sub'])
            v2 = compare(c2, 'with %r and subsamples' % (seq,), same_sub_as_base=False)
            if is_index and not _same(v1, v2):
                raise Violation('value-differs:index', 'index column %r differs between two loads with the same subsample selection' % target)
    return None
