"""C19 — cumsum writes exactly the selected partial sums for every length.

Generator: lengths 0..200 (0/1 heavily weighted) x initial/final x offset x every
input/output pairing of {i4,i8,u4,u8,f4,f8} with integer-valued overflow-free data
(so the result is exact whatever type numba accumulates in), non-integer floats for
float->float, ndarray or list input, correct and wrong output lengths.
Oracle: exact Python-int prefix sums sliced per the flags (== numpy.cumsum), sentinel
margins around `out`, ValueError for a wrong length.  Even shards run with
NUMBA_BOUNDSCHECK=1 so that a read outside the *input* raises.
"""
import numpy as np
from hypothesis import strategies as st

from vt.core import Reject, Violation

ID = 'C19'
RULE = (
    'Hypothesis descriptors (n, initial, final, offset, in/out dtype, ndarray|list, values, out-length delta); '
    'non-trivial = length<=1 or non-default flags or differing in/out dtypes or wrong-length output; '
    'distinct = descriptor hash.'
)
ASSUMPTIONS = [
    'integer-valued overflow-free data (|partial sums| < 2^40) so the oracle is exact for every accumulator type',
    'even shards run under NUMBA_BOUNDSCHECK=1 (numba bounds checker is trusted to flag out-of-range indices); odd shards run normally compiled code with sentinel margins',
]
DTYPES = ['int32', 'int64', 'uint32', 'uint64', 'float32', 'float64']
SENT_I = 0x5A5A5A5
SENT_F = -7.25e30


def config(tier):
    if tier == 'quick':
        return dict(shards=8, examples=500, boundscheck=[True, False], numba_threads=1, shrink_calls=150)
    return dict(shards=16, examples=4000, boundscheck=[True, False], numba_threads=1, shrink_calls=400)


@st.composite
def _long_desc(draw):
    # inputs longer than 2^16 / 2^17 elements (where a blocked or chunked variant of the scan would switch over): values are
    # multiples of 2^-10 drawn from a seeded generator, so every partial sum is exact in float64 and in int64
    n = draw(st.sampled_from([65536, 65537, 65538, 70000, 100003, 131073, 200001]))
    kindnum = draw(st.sampled_from(['float', 'float', 'int']))
    ind, outd = ('float64', 'float64') if kindnum == 'float' else (draw(st.sampled_from(['int32', 'int64', 'uint32'])), draw(st.sampled_from(['int64', 'uint64', 'float64'])))
    return dict(n=n, initial=draw(st.booleans()), final=draw(st.booleans()), kind='array', ind=ind, outd=outd, frac=(kindnum == 'float'), vals=None, longseed=draw(st.integers(0, 2**31 - 1)),
                offset=draw(st.sampled_from([0, 0, 3])) if kindnum == 'int' else draw(st.sampled_from([0.0, 1.5])), delta=0, outlayout='contig', inlayout='contig')


@st.composite
def _desc(draw):
    if draw(st.integers(0, 59)) == 0:
        return draw(_long_desc())
    n = draw(st.one_of(st.sampled_from([0, 0, 0, 1, 1, 2, 3]), st.integers(0, 24), st.integers(0, 200)))
    initial = draw(st.booleans())
    final = draw(st.booleans())
    kind = draw(st.sampled_from(['array', 'array', 'array', 'list']))
    if kind == 'list' and n == 0:
        kind = 'array'  # numba cannot type an empty reflected list (numba limitation, not the helper's)
    ind = draw(st.sampled_from(DTYPES))
    outd = draw(st.sampled_from(DTYPES))
    if kind == 'list':
        ind = draw(st.sampled_from(['int64', 'float64']))
    frac = False
    if ind.startswith('float') and outd.startswith('float'):
        frac = draw(st.booleans())
    unsigned = ind.startswith('u') or outd.startswith('u')
    lo = 0 if unsigned else -(2**16)
    special = draw(st.sampled_from(['none'] * 6 + ['fracint', 'big64to32']))
    if special == 'fracint' and kind == 'array':
        # fractional float input accumulated into an integer output: numpy.cumsum(arr) cast to the output type (truncation)
        ind = draw(st.sampled_from(['float32', 'float64']))
        outd = draw(st.sampled_from(['int32', 'int64', 'uint32', 'uint64']))
        vals = [q * 0.25 for q in draw(st.lists(st.integers(0, 400), min_size=n, max_size=n))]
        offset = draw(st.integers(0, 1000))
        delta = 0
        return dict(n=n, initial=initial, final=final, kind=kind, ind=ind, outd=outd, frac=False, vals=vals, offset=offset, delta=delta, special='fracint')
    if special == 'big64to32' and kind == 'array':
        # float64 input whose partial sums exceed 2^24 into a float32 output: each partial sum is rounded once (numpy.cumsum then cast)
        ind, outd = 'float64', 'float32'
        vals = draw(st.lists(st.sampled_from([2.0**24, 2.0**25, 1.0, 3.0, 5.0, 2.0**26 + 4.0]), min_size=n, max_size=n))
        return dict(n=n, initial=initial, final=final, kind=kind, ind=ind, outd=outd, frac=False, vals=vals, offset=0, delta=0, special='big64to32')
    if frac:
        vals = draw(st.lists(st.floats(-1000, 1000, allow_nan=False, width=32), min_size=n, max_size=n))
        offset = draw(st.one_of(st.just(0), st.floats(-100, 100, allow_nan=False, width=32)))
    else:
        vals = draw(st.lists(st.one_of(st.integers(lo, 2**16), st.sampled_from([0, 1])), min_size=n, max_size=n))  # |partial sums| < 2^24: exact in every dtype incl. float32
        offset = draw(st.one_of(st.just(0), st.integers(0 if unsigned else -1000, 10**5)))
        if outd.startswith('float') and draw(st.booleans()):
            offset = float(offset)
    delta = draw(st.sampled_from([0, 0, 0, 0, 0, 0, 1, -1, 2, -2, 3, -3]))
    d = dict(n=n, initial=initial, final=final, kind=kind, ind=ind, outd=outd, frac=frac, vals=vals, offset=offset, delta=delta)
    # memory layout of the arrays handed over: numpy.cumsum (which the helper is documented to match) takes any strided `out`
    # and works in place (out=a)
    d['outlayout'] = draw(st.sampled_from(['contig', 'contig', 'contig', 'strided', 'reversed']))
    d['inlayout'] = draw(st.sampled_from(['contig', 'contig', 'strided'])) if kind == 'array' else 'contig'
    if kind == 'array' and ind == outd and delta == 0 and n >= 1 and draw(st.integers(0, 5)) == 0:
        # in place, in the layouts where every element is written at or after the position it is read from
        # (any sequential implementation that reads each input element once supports them; numpy.cumsum(a, out=a) is the model)
        d['alias'] = 'shifted' if (initial and final) else ('same' if not initial else None)
        if d['alias']:
            d['outlayout'] = d['inlayout'] = 'contig'
    return d


def strategy(tier):
    return _desc()


def nontrivial(d):
    return d['n'] <= 1 or d['initial'] or not d['final'] or d['ind'] != d['outd'] or d['delta'] != 0 or bool(d.get('alias')) or d.get('outlayout', 'contig') != 'contig'


def classes(d):
    c = ['n=0' if d['n'] == 0 else 'n=1' if d['n'] == 1 else 'n>=2']
    c.append('flags=%d%d' % (d['initial'], d['final']))
    c.append('wrong-length' if d['delta'] else 'right-length')
    c.append(d['kind'])
    if d['ind'] != d['outd']:
        c.append('mixed-dtype')
    if d['frac']:
        c.append('fractional')
    if d.get('special'):
        c.append('special=' + d['special'])
    if d.get('outlayout', 'contig') != 'contig':
        c.append('out=' + d['outlayout'])
    if d.get('inlayout', 'contig') != 'contig':
        c.append('in=strided')
    if d.get('alias'):
        c.append('in-place=' + d['alias'])
    if d.get('longseed') is not None:
        c.append('long-input(>2^16)')
    return c


def run_case(d):
    from abacusnbody.util import cumsum

    n, initial, final = d['n'], bool(d['initial']), bool(d['final'])
    vals = d['vals']
    if d.get('longseed') is not None:
        g = np.random.Generator(np.random.PCG64(int(d['longseed'])))
        if d['frac']:
            vals = g.integers(-1024, 1025, size=n) / 1024.0
        else:
            vals = g.integers(0, 1000, size=n)
    if len(vals) != n:
        raise Reject('len(vals)!=n')
    ind, outd = np.dtype(d['ind']), np.dtype(d['outd'])
    if d['kind'] == 'list':
        if n == 0:
            raise Reject('empty list')
        arr = [float(v) for v in vals] if ind.kind == 'f' else [int(v) for v in vals]
        arr_copy = list(arr)
    else:
        arr = np.array(vals, dtype=ind)
        if d.get('inlayout') == 'strided':
            wide = np.full(2 * n + 1, 77, dtype=ind)
            wide[0 : 2 * n : 2] = arr
            arr = wide[0 : 2 * n : 2]
        arr_copy = arr.copy()
    n_out = n - 1 + int(initial) + int(final)
    outlen = n_out + d['delta']
    if outlen < 0:
        raise Reject('negative output length')
    sent = SENT_F if outd.kind == 'f' else SENT_I
    M = 8
    layout = d.get('outlayout', 'contig')
    alias = d.get('alias')
    if alias:
        if not (d['kind'] == 'array' and ind == outd and d['delta'] == 0 and n >= 1):
            raise Reject('aliasing needs equal dtypes and a right-length output')
        if alias == 'same' and not initial:
            # out is the input itself (final=True) or its first n-1 elements (final=False): element i is written after it was read
            buf = np.full(n + 2 * M, sent, dtype=outd)
            buf[M : M + n] = arr
            arr = buf[M : M + n]
            out = buf[M : M + outlen]
        elif alias == 'shifted' and initial and final:
            # cumsum(b[1:], b, initial=True, final=True): b[i+1] is written after b[1:][i] (the same element) was read
            buf = np.full(n + 1 + 2 * M, sent, dtype=outd)
            buf[M + 1 : M + 1 + n] = arr
            buf[M] = 0
            arr = buf[M + 1 : M + 1 + n]
            out = buf[M : M + outlen]
        else:
            raise Reject('aliasing layout not defined for these flags')
        live = np.zeros(len(buf), dtype=bool)
        live[M : M + outlen] = True
    elif layout == 'strided':
        buf = np.full(2 * outlen + 2 * M, sent, dtype=outd)
        out = buf[M : M + 2 * outlen : 2]
        live = np.zeros(len(buf), dtype=bool)
        live[M : M + 2 * outlen : 2] = True
    elif layout == 'reversed':
        buf = np.full(outlen + 2 * M, sent, dtype=outd)
        out = buf[M : M + outlen][::-1]
        live = np.zeros(len(buf), dtype=bool)
        live[M : M + outlen] = True
    else:
        buf = np.full(outlen + 2 * M, sent, dtype=outd)
        out = buf[M : M + outlen]
        live = np.zeros(len(buf), dtype=bool)
        live[M : M + outlen] = True
    if len(out) != outlen:
        raise RuntimeError('harness: output view length')
    offset = d['offset']

    tag = 'len0' if n == 0 else 'n>=1'
    raised = None
    total = None
    try:
        total = cumsum(arr, out, initial=initial, final=final, offset=offset)
    except ValueError as e:
        raised = e
    except (IndexError, SystemError) as e:
        raise Violation('cumsum-%s-out-of-bounds' % tag, 'n=%d flags=(%s,%s) outlen=%d: %s: %s' % (n, initial, final, outlen, type(e).__name__, e))

    if alias == 'same' and not final:
        live[M + n - 1] = True  # the last input element, not part of out: must keep its value
        if buf[M + n - 1] != arr_copy[n - 1]:
            raise Violation('cumsum-%s-canary' % tag, 'in-place call changed the input element behind the output')
        live[M + n - 1] = True
    margins_ok = bool(np.all(buf[~live] == sent))
    if not margins_ok:
        raise Violation('cumsum-%s-canary' % tag, 'element outside the output view overwritten n=%d flags=(%s,%s) outlen=%d layout=%s' % (n, initial, final, outlen, layout))
    if d['kind'] == 'array' and not alias and not np.array_equal(arr, arr_copy):
        raise Violation('cumsum-input-modified', 'input array changed')

    if d['delta'] != 0 or n_out < 0:
        if raised is None:
            raise Violation('cumsum-accepts-wrong-length', 'n=%d flags=(%s,%s) len(out)=%d expected %d: no ValueError' % (n, initial, final, outlen, n_out))
        return None
    if raised is not None:
        raise Violation('cumsum-%s-rejects-right-length' % tag, 'n=%d flags=(%s,%s) len(out)=%d: %s' % (n, initial, final, outlen, raised))

    # oracle
    if d['frac']:
        a64 = np.array(vals, dtype=ind).astype(np.float64)
        part = float(offset) + np.cumsum(a64)
        scale = abs(float(offset)) + float(np.sum(np.abs(a64))) + 1e-30
        tol = 4 * max(n, 1) * float(np.finfo(outd).eps) * scale
        P = [float(x) for x in part]
        off = float(offset)
    elif d.get('special') in ('fracint', 'big64to32'):
        tol = 0
        off = int(offset)
        a64 = np.array(vals, dtype=ind).astype(np.float64)  # multiples of 0.25 / integers: every partial sum is exact in float64
        part = off + np.cumsum(a64)
        if outd.kind == 'f':
            P = [float(outd.type(x)) for x in part]   # one rounding to the output type
        else:
            P = [int(x) for x in part]                # truncation, as numpy's cast does
    else:
        tol = 0
        off = int(offset)
        P, s = [], off
        for v in vals:
            s += int(v)
            P.append(s)
    if n == 0:
        exp = [off] if (initial and final) else []
        exp_total = off
    else:
        exp = ([off] if initial else []) + P[: n - 1] + ([P[n - 1]] if final else [])
        exp_total = P[n - 1]
    got = out.tolist()
    if len(got) != len(exp):
        raise Violation('cumsum-harness', 'length bookkeeping')  # cannot happen
    for i, (g, e) in enumerate(zip(got, exp)):
        if not (abs(float(g) - float(e)) <= tol):
            raise Violation('cumsum-%s-wrong-output' % tag, 'n=%d flags=(%s,%s) %s->%s out[%d]=%r expected %r' % (n, initial, final, ind, outd, i, g, e))
    if d.get('special') in ('fracint', 'big64to32') and n >= 1:
        exp_total = float(off + np.sum(np.array(vals, dtype=ind).astype(np.float64)))  # the grand total itself is not cast to the output type
    if not (abs(float(total) - float(exp_total)) <= tol):
        raise Violation('cumsum-%s-wrong-total' % tag, 'n=%d flags=(%s,%s) %s->%s returned %r expected %r' % (n, initial, final, ind, outd, total, exp_total))
    return None
