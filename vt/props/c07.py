"""C07 — parallel TSC equals serial TSC under every thread schedule.

Schedules on numba's thread pool cannot be enumerated, so the property is decided through the invariant that
implies schedule independence:

 O1 (deciding)  conflict freedom: the exact stripes handed to the parallel kernel are captured at the module seam
                tsc._tsc_parallel; for every particle the *real* _tsc_scatter (py_func) is run into a recording array
                to obtain the set of cells it reads-modifies-writes (and whether the added value is non-zero).
                Violation iff two stripes of equal parity (run concurrently by _tsc_parallel) touch a common cell and
                at least one of the two deposits is non-zero.  A configuration rejected with ValueError is a pass.
 O2             differential: tsc_parallel(nthread=k) == tsc_parallel(nthread=1) up to summation order (float64 grid).
 O1 is a deterministic predicate over the stripes: it does not depend on the luck of the scheduler.
"""
import warnings

import numpy as np
from hypothesis import strategies as st

from vt.core import Reject, Violation, call_repo

ID = 'C07'
RULE = (
    'descriptor = (grid shape with n1d along coord 2..130, nthread 1..16 or -1 (all threads, the default), npartition None or any integer, coord, sort, offset in {0, h/2, random}, dtype, box) '
    'x adversarial particles along coord (every stripe boundary and half-cell, +-{0,1,2} ulp, 0, L) sharing <=2 cells in the other coordinates; '
    'plus an enumerated sub-space of all (n1d, nthread, npartition) with a fixed quarter-cell particle set. '
    'non-trivial = configuration accepted, >=4 stripes, particles within 2 ulp of >=2 stripe boundaries; distinct = descriptor hash.'
)
ASSUMPTIONS = [
    "numba runs the iterations of one prange concurrently and the two prange loops of _tsc_parallel one after the other (documented semantics)",
    "_tsc_scatter.py_func performs the same index arithmetic as the compiled kernel (same source; particles are placed on both sides of every rounding edge so an ulp-level fastmath difference is explored anyway)",
    "a concurrent read-modify-write of one cell by two threads may lose an update; nothing weaker is modelled",
    "each particle's touched cells do not depend on the other particles (the kernel loops over particles independently)",
]
EXHAUSTIVE_NOTE = {
    'quick': 'all (n1d<=24) x (nthread in {2,3,5,16,-1}) x (npartition None and every explicit 1..n1d) x {array grid coord 0 offset 0|h/2, shape-tuple grid (48,n,2) coord 1 offset h/2, shape-tuple grid (2,48,n) coord 2 offset 0}, quarter-cell particle set along coord plus every stripe boundary +-0..3 ulp, through O1',
    'thorough': 'all (n1d<=64) x (nthread 2..16 and -1) x (npartition None and every explicit 1..n1d) x {array grid coord 0 offset 0|h/2, shape-tuple grid (48,n,2) coord 1 offset h/2, shape-tuple grid (2,48,n) coord 2 offset 0}, quarter-cell particle set along coord plus every stripe boundary +-0..3 ulp, through O1',
}


def config(tier):
    if tier == 'quick':
        return dict(shards=8, examples=70, numba_threads=16, soft_s=170, shrink_calls=60)
    return dict(shards=12, examples=450, numba_threads=16, soft_s=1300, shrink_calls=150)


# ------------------------------------------------------------------ generators


def _ulps(x, k, dt):
    x = dt(x)
    for _ in range(abs(k)):
        x = np.nextafter(x, dt(np.inf) if k > 0 else dt(-np.inf))
    return x


@st.composite
def _desc(draw, tier):
    n1d = draw(st.one_of(st.integers(2, 40), st.integers(2, 130)))
    other = draw(st.sampled_from([2, 3, 4, 5]))
    coord = draw(st.integers(0, 2))
    nthread = draw(st.one_of(st.integers(2, 16), st.sampled_from([1, 2, 16, -1, -1])))  # -1 (the default): all threads (16 in the workers)
    npart = draw(st.one_of(st.none(), st.none(), st.integers(1, n1d), st.sampled_from([n1d // 2, n1d // 3, n1d // 4, (n1d - 1) // 3, 2, 4]).map(lambda v: max(v, 1))))
    dtype = draw(st.sampled_from(['f4', 'f4', 'f8']))
    box = draw(st.sampled_from([1.0, 123.0, 2000.0, 64.0, 7.3]))
    offk = draw(st.sampled_from(['0', 'half', 'rand', 'cells', 'cells']))
    # offset in cells along coord: 0, half a cell, a random sub-cell value, or several cells (the parameter is a plain shift of the deposit; any value below the box is handled by the wrap)
    offfrac = {'0': 0.0, 'half': 0.5, 'rand': draw(st.floats(0.0, 0.999)), 'cells': draw(st.integers(1, max(1, n1d // 2))) + draw(st.sampled_from([0.0, 0.5, 0.25]))}[offk]
    osizes = [draw(st.sampled_from([other, other, 8, 32, 96])), draw(st.sampled_from([other, other, other, 48]))]
    if offk == 'cells':
        # _tsc_scatter wraps an index once (valid for grid coordinates below 2g - 1.5 on every axis): keep the other axes >= 4 cells
        # so that a multi-cell offset along coord stays inside that range on them too (run_case rejects anything beyond it)
        osizes = [max(o, 4) for o in osizes]
        other = max(other, 4)
    gridkind = draw(st.sampled_from(['array', 'array', 'tuple', 'tuple', 'int']))
    # particles: list of (boundary kind, index, ulp shift) along coord; other coords choose one of two cells
    npt = draw(st.integers(1, 40))
    pts = draw(st.lists(st.tuples(st.sampled_from(['stripe', 'stripe', 'half', 'cell', 'frac', 'edge']), st.integers(0, 400), st.integers(-2, 2), st.integers(0, 1), st.floats(0, 1, exclude_max=True)), min_size=npt, max_size=npt))
    return dict(n1d=n1d, other=other, coord=coord, nthread=nthread, npartition=npart, sort=draw(st.booleans()), dtype=dtype, box=box, offfrac=offfrac,
                weights=draw(st.booleans()), pts=[list(p) for p in pts], othercells=[draw(st.integers(0, other - 1)), draw(st.integers(0, other - 1))],
                osizes=osizes, gridkind=gridkind)


def strategy(tier):
    return _desc(tier)


def _effective_np(d):
    """npartition the current rule would use is unknown here (that is code under test); estimate for classification only"""
    return d['npartition']


def _nt(d):
    """thread count a descriptor asks for, with the 'all threads' spelling resolved (workers run with NUMBA_NUM_THREADS=16)"""
    return 16 if d['nthread'] < 0 else d['nthread']


def positions(d):
    """Deterministic particle positions from the descriptor."""
    dt = np.float32 if d['dtype'] == 'f4' else np.float64
    n1d, box = d['n1d'], d['box']
    L = dt(box)
    h = box / n1d
    npq = d['npartition'] or max(2, 2 * (min(n1d // 3, 2 * _nt(d)) // 2))
    xs = []
    near = 0
    for kind, idx, ul, oc, fr in d['pts']:
        if kind == 'stripe':
            s = idx % (npq + 1)
            x = _ulps(box * s / npq, ul, dt)
            near += 1
        elif kind == 'half':
            c = idx % n1d
            x = _ulps((c + 0.5) * h - d['offfrac'] * h, ul, dt)
        elif kind == 'cell':
            c = idx % (n1d + 1)
            x = _ulps(c * h - d['offfrac'] * h, ul, dt)
        elif kind == 'edge':
            x = [dt(0.0), L, np.nextafter(L, dt(0)), np.nextafter(dt(0), dt(1))][idx % 4]
        else:
            x = dt(fr * box)
        x = dt(x)
        if not (x >= 0):
            x = dt(0.0)
        if x > L:
            x = L
        xs.append((x, oc))
    # unique along coord so that particles can be identified after partitioning
    seen = set()
    out = []
    for x, oc in xs:
        if float(x) in seen:
            continue
        seen.add(float(x))
        out.append((x, oc))
    osz = list(d.get('osizes') or [d['other'], d['other']])
    if d.get('gridkind') == 'int':
        if n1d > 40:
            osz = [d['other'], d['other']]  # an int grid is cubic: keep it small, fall back to an array of the generated shape
        else:
            osz = [n1d, n1d]
    shape = []
    it = iter(osz)
    for ax in range(3):
        shape.append(n1d if ax == d['coord'] else next(it))
    pos = np.empty((len(out), 3), dtype=dt)
    for i, (x, oc) in enumerate(out):
        cell = d['othercells'][oc]
        for ax in range(3):
            pos[i, ax] = dt((min(cell, shape[ax] - 1) + 0.25) * (box / shape[ax]))
        pos[i, d['coord']] = x
    return pos, tuple(shape), near


def nontrivial(d):
    if d.get('mode') == 'grid':
        return True
    npq = d['npartition']
    if npq is None:
        npq = 4 if _nt(d) > 1 and d['n1d'] >= 12 else 1
    nb = len({(p[1] % (npq + 1), p[2]) for p in d['pts'] if p[0] == 'stripe'})
    return _nt(d) > 1 and npq >= 4 and nb >= 2


def classes(d):
    if d.get('mode') == 'grid':
        return ['enumerated', 'offset=half' if d['offhalf'] else 'offset=0', 'variant=' + d.get('variant', 'a0')]
    c = ['nthread=1' if d['nthread'] == 1 else 'nthread=-1(all)' if d['nthread'] < 0 else 'nthread>1', 'np=None' if d['npartition'] is None else 'np=explicit', 'coord=%d' % d['coord'], 'offset=' + ('0' if d['offfrac'] == 0 else 'half' if d['offfrac'] == 0.5 else 'rand' if d['offfrac'] < 1 else 'cells'), d['dtype'], 'grid=' + d.get('gridkind', 'array')]
    if d.get('mode') == 'grid':
        c.append('enumerated')
    return c


# ------------------------------------------------------------------ recording of touched cells


class _Rec(np.ndarray):
    def __setitem__(self, key, value):
        if isinstance(key, tuple) and len(key) == self.ndim:
            k = tuple(int(i) % n for i, n in zip(key, self.shape))
            old = np.ndarray.__getitem__(self, key)
            log = self._log
            log[k] = log.get(k, False) or bool(value != old)
        np.ndarray.__setitem__(self, key, value)


_touch_cache = {}


def touched(tsc, p, w, shape, box, offset, dt):
    """cells read-modified-written by the real kernel for one particle -> {cell: nonzero deposit}"""
    key = (p.tobytes(), None if w is None else float(w), shape, float(box), float(offset), dt)
    r = _touch_cache.get(key)
    if r is not None:
        return r
    rec = np.zeros(shape, dtype=np.float64).view(_Rec)
    rec._log = {}
    ww = None if w is None else np.array([w], dtype=p.dtype)
    tsc._tsc_scatter.py_func(p.reshape(1, 3), rec, box, weights=ww, offset=offset)
    if len(_touch_cache) > 200000:
        _touch_cache.clear()
    _touch_cache[key] = rec._log
    return rec._log


_groups_cache = {}


def pass_groups(tsc, nst):
    """Which stripes does _tsc_parallel process inside the same prange region (= potentially at the same time)?

    Read off the real source: _tsc_parallel.py_func is run on one tagged particle per stripe with `numba.prange` replaced by a
    generator that opens a new group per loop and `_tsc_scatter` replaced by a recorder. On the unchanged tree this gives the even
    stripes, then the odd ones; a change that merges the passes (no barrier between neighbouring stripes) shows up as one group.
    Falls back to the even/odd structure of the design if the source cannot be read that way."""
    if nst in _groups_cache:
        return _groups_cache[nst]
    import numba as real_numba

    groups = []

    class _NB:
        def __getattr__(self, name):
            return getattr(real_numba, name)

        @staticmethod
        def prange(*a):
            g = []
            groups.append(g)
            for i in range(*a):
                yield i

    def rec(positions, dens, box, weights=None, offset=0.0):
        for row in np.asarray(positions).reshape(-1, 3):
            if not groups:
                groups.append([])
            groups[-1].append(int(row[0]))

    fn = getattr(tsc._tsc_parallel, 'py_func', None)
    ok = False
    if fn is not None and nst >= 1:
        ppart = np.zeros((nst, 3), dtype=np.float64)
        ppart[:, 0] = np.arange(nst)
        starts = np.arange(nst + 1, dtype=np.int64)
        saved = (tsc.__dict__.get('numba'), tsc._tsc_scatter)
        try:
            tsc.numba = _NB()
            tsc._tsc_scatter = rec
            fn(ppart, starts, np.zeros((1, 1, 1)), 1.0, None, 0.0)
            got = sorted(x for g in groups for x in g)
            ok = got == list(range(nst))
        except Exception:
            ok = False
        finally:
            tsc.numba, tsc._tsc_scatter = saved
    if not ok:
        groups = [list(range(0, nst, 2)), list(range(1, nst, 2))]
        _stats['pass_structure_fallbacks'] = _stats.get('pass_structure_fallbacks', 0) + 1
    res = [g for g in groups if g]
    _groups_cache[nst] = res
    return res


def conflict_check(tsc, cap, shape, what):
    """O1 on captured (ppart, starts, box, weights, offset)."""
    ppart, starts, box, weights, offset = cap
    nst = len(starts) - 1
    dt = str(ppart.dtype)
    stripe_cells = []
    for s in range(nst):
        cells = {}
        for i in range(int(starts[s]), int(starts[s + 1])):
            t = touched(tsc, np.ascontiguousarray(ppart[i]), None if weights is None else weights[i], shape, box, offset, dt)
            for k, nz in t.items():
                cells[k] = cells.get(k, False) or nz
        stripe_cells.append(cells)
    for gi, idx in enumerate(pass_groups(tsc, nst)):
        owner = {}
        for s in idx:
            for k, nz in stripe_cells[s].items():
                if k in owner:
                    s0, nz0 = owner[k]
                    if nz or nz0:
                        return 'stripes %d and %d (both in parallel pass %d = stripes %s, processed concurrently) both update cell %s (%s); %s' % (s0, s, gi, idx[:12], k, 'one deposit is exactly zero' if not (nz and nz0) else 'both deposits non-zero', what)
                else:
                    owner[k] = (s, nz)
    return None


_threads_seen = []


def _run_parallel(tsc, pos, shape, box, d, offset, weights, nthread, capture, same_arrays=False):
    """tsc_parallel on a float64 grid; returns (grid or None if rejected, captured args). The code under test gets a private copy of
    `pos` unless same_arrays (then `pos` / `weights` themselves: the caller re-uses its buffers between calls)"""
    caps = []
    orig = tsc._tsc_parallel

    def seam(ppart, starts, dens, box_, weights=None, offset=0.0):
        import numba

        _threads_seen.append(int(numba.get_num_threads()))  # the thread count the parallel kernel will actually run with
        caps.append((np.array(ppart, copy=True), np.array(starts, copy=True), box_, None if weights is None else np.array(weights, copy=True), offset))
        return orig(ppart, starts, dens, box_, weights, offset)

    if capture:
        tsc._tsc_parallel = seam
    try:
        kind = d.get('gridkind', 'array')
        if kind == 'int' and not (shape[0] == shape[1] == shape[2]):
            kind = 'array'
        grid = np.zeros(shape, dtype=np.float64) if kind == 'array' else (tuple(int(x) for x in shape) if kind == 'tuple' else int(shape[0]))
        with warnings.catch_warnings():
            warnings.simplefilter('ignore')
            try:
                grid = tsc.tsc_parallel(pos if same_arrays else pos.copy(), grid, box, weights=weights, nthread=nthread, npartition=d['npartition'], sort=bool(d.get('sort')), coord=d['coord'], offset=offset, wrap=True)
            except ValueError:
                return None, caps
        if tuple(grid.shape) != tuple(shape):
            raise Violation('grid-shape', 'tsc_parallel returned a grid of shape %s for densgrid=%r' % (grid.shape, shape))
    finally:
        tsc._tsc_parallel = orig
    return grid, caps


def run_case(d):
    import abacusnbody.analysis.tsc as tsc

    if d.get('mode') == 'grid':
        return _run_grid(tsc, d)
    pos, shape, near = positions(d)
    if len(pos) == 0:
        return None
    box = d['box']
    dt = pos.dtype.type
    offset = float(dt(d['offfrac'] * box / d['n1d']))
    weights = None
    if d['weights']:
        weights = (1.0 + (np.arange(len(pos)) % 7) * 0.25).astype(pos.dtype)
    for ax in range(3):
        pmax = (float(np.max(pos[:, ax])) + offset) * shape[ax] / box
        if pmax >= 2 * shape[ax] - 1.6 or (shape[ax] == 2 and pmax >= 2.4):
            raise Reject('offset beyond the single-wrap range of the kernel on an axis')
    del _threads_seen[:]
    grid, caps = _run_parallel(tsc, pos, shape, box, d, offset, weights, d['nthread'], True)
    if grid is None:
        return {'classes': ['rejected-config'], 'nontrivial': False}
    effective = max(_threads_seen) if _threads_seen else d['nthread']
    if len(caps) != 1:
        raise Violation('seam-not-called-once', 'tsc_parallel called _tsc_parallel %d times' % len(caps))
    ppart, starts = caps[0][0], caps[0][1]
    nst = len(starts) - 1
    cls = ['accepted-config', 'stripes=%s' % ('1' if nst == 1 else '2' if nst == 2 else '3' if nst == 3 else '>=4')]
    # the stripes must hold exactly the input particles
    w64 = pos.astype(np.float64)
    w64[w64 >= box] -= box  # tsc_parallel(wrap=True) wraps values >= BoxSize in place (float64 arithmetic, stored back in the positions' dtype)
    wrapped = w64.astype(pos.dtype)
    if sorted(map(tuple, ppart.tolist())) != sorted(map(tuple, wrapped.tolist())) or int(starts[-1]) != len(pos) or int(starts[0]) != 0:
        raise Violation('stripes-not-a-permutation', 'particles handed to the parallel kernel are not the input particles')
    if d['nthread'] > 1 or effective > 1:
        # (also when one thread was requested but the parallel kernel is entered with more: the single-thread waiver of the
        # stripe-width / evenness rules only holds if the kernel really runs on one thread)
        why = conflict_check(tsc, caps[0], shape, 'n1d=%d nthread=%d (kernel entered with %d threads) npartition=%r (stripes used: %d) coord=%d offset=%r box=%r dtype=%s' % (d['n1d'], d['nthread'], effective, d['npartition'], nst, d['coord'], offset, box, d['dtype']))
        if why:
            raise Violation('tsc-concurrent-stripes', why)
    # O2: differential against the single-threaded deposit
    d1 = dict(d, npartition=None)
    ref, _ = _run_parallel(tsc, pos, shape, box, dict(d1, gridkind='array'), offset, weights, 1, False)
    if ref is None:
        raise Violation('serial-rejected', 'nthread=1 default configuration rejected')
    tot = float(np.abs(ref).sum()) + 1e-30
    err = float(np.abs(grid - ref).max())
    if not (err <= (1e-10 if grid.dtype == np.float64 else 64 * float(np.finfo(np.float32).eps)) * tot):
        raise Violation('parallel-differs-from-serial', 'max |parallel - serial| = %g (total weight %g) for n1d=%d nthread=%d npartition=%r stripes=%d' % (err, tot, d['n1d'], d['nthread'], d['npartition'], nst))
    # history: the caller re-uses its position / weight buffers for the next batch of particles (same array objects, new
    # contents, same settings). The second deposit must be the deposit of the *new* contents.
    buf = pos.copy()
    wbuf = None if weights is None else weights.copy()
    g1, _ = _run_parallel(tsc, buf, shape, box, d, offset, wbuf, d['nthread'], False, same_arrays=True)
    if g1 is not None:
        new = pos[::-1].astype(np.float64)
        new[:, d['coord']] += 1.37 * box / d['n1d']
        new[new >= box] -= box
        newp = new.astype(pos.dtype)
        newp[newp >= dt(box)] = 0
        buf[...] = newp
        if wbuf is not None:
            wbuf[...] = weights[::-1] * dt(0.5) + dt(1)
        neww = None if wbuf is None else wbuf.copy()
        ok_range = True
        for ax in range(3):
            pmax = (float(np.max(newp[:, ax])) + offset) * shape[ax] / box
            if pmax >= 2 * shape[ax] - 1.6 or (shape[ax] == 2 and pmax >= 2.4):
                ok_range = False
        if ok_range:
            g2, _ = _run_parallel(tsc, buf, shape, box, d, offset, wbuf, d['nthread'], False, same_arrays=True)
            ref2, _ = _run_parallel(tsc, newp, shape, box, dict(d1, gridkind='array'), offset, neww, 1, False)
            if g2 is None or ref2 is None:
                raise Violation('reused-buffers-rejected', 'a configuration accepted for the first batch was rejected for the second batch in the same buffers')
            tot2 = float(np.abs(ref2).sum()) + 1e-30
            err2 = float(np.abs(g2 - ref2).max())
            if not (err2 <= (1e-10 if g2.dtype == np.float64 else 64 * float(np.finfo(np.float32).eps)) * tot2):
                raise Violation('parallel-differs-from-serial:reused-buffers', 'second deposit from the same position/weight arrays (new contents): max |parallel - serial| = %g (total weight %g) for n1d=%d nthread=%d npartition=%r' % (err2, tot2, d['n1d'], d['nthread'], d['npartition']))
            cls.append('reused-buffers')
    return {'classes': cls}


# ------------------------------------------------------------------ enumerated sub-space


def exhaustive(tier, shard, nshards):
    nmax = 24 if tier == 'quick' else 64
    k = 0
    for n1d in range(2, nmax + 1):
        for offk, variant in ((0, 'a0'), (1, 'a0'), (1, 't1'), (0, 't2')):
            k += 1
            if k % nshards != shard:
                continue
            yield {'mode': 'grid', 'variant': variant, 'n1d': n1d, 'offhalf': offk, 'box': 64.0 if (n1d + offk) % 3 == 0 else 123.0, 'dtype': 'f4', 'nthreads': [2, 3, 5, 16, -1] if tier == 'quick' else list(range(2, 17)) + [-1]}


def _run_grid(tsc, d):
    """one descriptor = one (n1d, offset): all nthread 2..16 x npartition None, 1..n1d with a quarter-cell particle set"""
    n1d, box = d['n1d'], d['box']
    dt = np.float32
    h = box / n1d
    xs = np.unique(np.clip(np.array([q * h / 4 for q in range(4 * n1d + 1)], dtype=dt), 0, dt(box)))
    variant = d.get('variant', 'a0')
    coord = {'a0': 0, 't1': 1, 't2': 2}[variant]
    shape = {'a0': (n1d, 2, 2), 't1': (48, n1d, 2), 't2': (2, 48, n1d)}[variant]
    gridkind = 'array' if variant == 'a0' else 'tuple'

    def place(xarr):
        pp = np.empty((len(xarr), 3), dtype=dt)
        for ax in range(3):
            pp[:, ax] = dt(0.25 * box / shape[ax])
        pp[:, coord] = xarr
        return pp

    pos = place(xs)
    offset = float(dt(0.5 * h)) if d['offhalf'] else 0.0
    nacc = nrej = 0
    seen = {}
    ext_cache = {}

    def extended(nst):
        """quarter-cell set + every stripe boundary of an nst-stripe partition +- 0..3 ulp (both sides of each key edge)"""
        if nst not in ext_cache:
            extra = []
            for sidx in range(nst + 1):
                b = dt(box * sidx / nst)
                for kk in range(-3, 4):
                    x = _ulps(b, kk, dt)
                    if 0 <= x <= dt(box):
                        extra.append(x)
            allx = np.unique(np.concatenate([xs, np.array(extra, dtype=dt)]))
            ext_cache[nst] = place(allx)
        return ext_cache[nst]

    for nthread in d.get('nthreads', range(2, 17)):
        for npq in [None] + list(range(1, n1d + 1)):
            dd = {'npartition': npq, 'coord': coord, 'sort': False, 'gridkind': gridkind}
            grid, caps = _run_parallel(tsc, pos, shape, box, dd, offset, None, nthread, True)
            if grid is None:
                nrej += 1
                continue
            nacc += 1
            nst = len(caps[0][1]) - 1
            if nst > 2:
                grid, caps = _run_parallel(tsc, extended(nst), shape, box, dd, offset, None, nthread, True)
            starts = caps[0][1]
            key = starts.tobytes() + caps[0][0][:, coord].tobytes()
            if key in seen:
                why = seen[key]
            else:
                why = conflict_check(tsc, caps[0], shape, 'n1d=%d nthread=%d npartition=%r (stripes used: %d) offset=%r box=%r' % (n1d, nthread, npq, len(starts) - 1, offset, box))
                seen[key] = why
            if why:
                raise Violation('tsc-concurrent-stripes', why)
    _stats['configs_accepted'] += nacc
    _stats['configs_rejected'] += nrej
    return {'classes': ['enumerated-accepted=%d' % min(nacc, 0) if False else 'enumerated'], 'nontrivial': nacc > 0}


_stats = {'configs_accepted': 0, 'configs_rejected': 0}


def extra_evidence():
    return dict(_stats)
