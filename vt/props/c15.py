"""C15 — pack9 streams decode one particle per record relative to its cell header.

Generator
  exhaustive (bulk): for each of the six 12-bit particle fields, all 4096 values (field 0: the 4080 values
    whose first byte is not the header marker 0xFF) x pseudo-random values of the other five fields, in a
    stream with two different headers (quick: 8 fillings per field, thorough: 64).
  Hypothesis:
    stream  grammar (header particle*)* with optional leading particles (no header yet), consecutive
            headers, trailing header, headers only, empty stream; header = (cpd 1..4047, velocity-scale
            field 0..4047, cell index in the cube, free low nibble); particle = six boundary-biased 12-bit
            fields or nine raw bytes (first byte != 0xFF) with nibble patterns; int8 / uint8 storage;
            float32 / float64; posout / velout in {None, False, supplied (inside a sentinel buffer)};
            BoxSize and VelZSpace_to_kms over decades.
    phys    encoder round trip: particles given as (cell, offset in the cell in [-0.5,0.5], velocity as a
            fraction of the representable range) -> encoded (nearest quantum) -> repository decode.
Oracle
  vt.oracles.decoders.ref_pack9_decode: nibble un-shuffle by integer division/modulo, physical values from
  integer numerators  pos = box*(s + 2000*i + 1000 - 1000*cpd)/(2000*cpd),  vel = velz*s*vf/(2000*cpd)  in
  long double, rounded once.  Tolerances: 6*eps(dtype)*scale with scale(pos) = |(i+.5)*cell| + box/2 +
  |s|*0.0005*cell (cancellation against box/2), scale(vel) = |vel|  [straightforward evaluation in `dtype`
  is within 3*eps*scale].  Round trip: one quantum (0.0005*cell, one velocity unit) plus that rounding term.
  Count = number of records whose first byte is not 0xFF; order = stream order (row w is compared with the
  w-th non-header record).  Particles before any header have no defined value: only count/order are judged.
  Every output mode is judged against the same reference.
"""
import numpy as np
from hypothesis import strategies as st

from vt.core import Reject, Violation, call_repo
from vt.oracles import decoders as D

ID = 'C15'
RULE = (
    'bulk descriptors sweep one 12-bit field completely (4096 records each); Hypothesis descriptors are record streams from the grammar '
    '(header particle*)* plus storage/dtype/output modes, and physical round-trip cases. non-trivial = bulk case, or a stream with >= 2 '
    'headers of different (cpd, cell) each followed by >= 1 particle, or a round trip with >= 2 cells; distinct = descriptor hash.'
)
ASSUMPTIONS = [
    'numpy integer division/modulo and x87 long double are trusted for the reference (vt/oracles/decoders.py)',
    'float tolerance 6*eps(dtype)*(|cell term| + box/2 + |offset|) for positions, 6*eps(dtype)*|v| for velocities; round trip one quantum on top',
    'header records are generated inside the documented domain: cpd 1..4047, velocity-scale field 0..4047, cell index 0..cpd-1',
    'particles that precede every header have no defined value (NaN by design); only count and order are asserted for them',
]
EXHAUSTIVE_NOTE = {
    'quick': 'each of the six 12-bit particle fields: every value (field 0: every non-header value) x 8 fillings of the other five fields',
    'thorough': 'each of the six 12-bit particle fields: every value (field 0: every non-header value) x 64 fillings of the other five fields',
}

SENT = -7.25e30
M = 3
BOXES = [2000.0, 1.0, 500.0, 7373.37, 1e-3, 296.0, 1e5, 1100.0]
VELZ = [1234.5, 1.0, 2000.0, 98765.4321, 1e-2, 300.0, 1e5, 41.5]
_counts = {'records_decoded': 0, 'particles_compared': 0, 'history_rechecks': 0}


def extra_evidence():
    return dict(_counts)


def config(tier):
    if tier == 'quick':
        return dict(shards=8, examples=800, numba_threads=1, boundscheck=[False, True], shrink_calls=150)
    return dict(shards=16, examples=3200, numba_threads=1, boundscheck=[False, False, False, True], shrink_calls=400)


# --------------------------------------------------------------------------- exhaustive

_HDRS = [(1, 2000, (0, 0, 0), 0), (1701, 311, (1700, 0, 850), 15), (4047, 4047, (4046, 4046, 4046), 9), (2, 1, (1, 0, 1), 6), (2047, 1000, (0, 2046, 1023), 1), (125, 3999, (7, 124, 60), 12)]


def exhaustive(tier, shard, nshards):
    nfill = 8 if tier == 'quick' else 64
    i = 0
    for field in range(6):
        for s in range(nfill):
            if i % nshards == shard:
                yield {'mode': 'p9-field', 'field': field, 'fill_seed': s, 'hdr0': (field + s) % len(_HDRS), 'hdr1': ((field + s) % len(_HDRS) + 1 + (s // len(_HDRS)) % (len(_HDRS) - 1)) % len(_HDRS), 'box': BOXES[i % len(BOXES)], 'velz': VELZ[(i // 2) % len(VELZ)], 'dtype': 'float32' if (i % 2 == 0) else 'float64'}
            i += 1


# --------------------------------------------------------------------------- strategies

_f12 = st.one_of(st.sampled_from([0, 1, 15, 16, 47, 48, 49, 255, 256, 1048, 2047, 2048, 2049, 3048, 3840, 4079, 4080, 4095, 0x555, 0xAAA, 0xF0F, 0x0F0]), st.integers(0, 4095))
_byte = st.one_of(st.sampled_from([0x00, 0x0F, 0xF0, 0xFF, 0xAA, 0x55, 0x80, 0x7F, 0x01, 0x10, 0xFE]), st.integers(0, 255))
_dtype = st.sampled_from(['float32', 'float64'])
_outmode = st.sampled_from(['none', 'none', 'false', 'arr', 'strided', 'tight'])
_box = st.one_of(st.sampled_from(BOXES), st.floats(1e-3, 1e5, allow_nan=False, allow_infinity=False))
_velz = st.one_of(st.sampled_from(VELZ), st.floats(1e-2, 1e5, allow_nan=False, allow_infinity=False))


@st.composite
def _header(draw):
    cpd = draw(st.one_of(st.sampled_from([1, 2, 3, 5, 1701, 2000, 2047, 2048, 2049, 4047]), st.integers(1, 4047)))
    vf = draw(st.one_of(st.sampled_from([1, 2000, 4047, 0]), st.integers(1, 4047)))
    ijk = [draw(st.one_of(st.sampled_from([0, cpd - 1, cpd // 2]), st.integers(0, cpd - 1))) for _ in range(3)]
    nib = draw(st.sampled_from([0, 0, 15, 5, 10, 1, 8]))
    return ['H', cpd, vf] + ijk + [nib]


@st.composite
def _particle(draw):
    if draw(st.booleans()):
        f = [draw(_f12) for _ in range(6)]
        if f[0] >= 0xFF0:
            f[0] -= 0x10  # keep the first byte off the header marker, by construction
        return ['P'] + f
    b = [draw(_byte) for _ in range(9)]
    if b[0] == 0xFF:
        b[0] = 0xFE
    return ['R'] + b


@st.composite
def _stream_desc(draw):
    shape = draw(st.sampled_from(['normal', 'normal', 'normal', 'normal', 'empty', 'headers-only', 'orphans-first', 'trailing-header', 'double-headers']))
    items = []
    if shape == 'empty':
        pass
    elif shape == 'headers-only':
        items = [draw(_header()) for _ in range(draw(st.integers(1, 4)))]
    else:
        if shape == 'orphans-first':
            items += [draw(_particle()) for _ in range(draw(st.integers(1, 3)))]
        for _ in range(draw(st.integers(1, 4))):
            items.append(draw(_header()))
            if shape == 'double-headers' and draw(st.booleans()):
                items.append(draw(_header()))
            items += [draw(_particle()) for _ in range(draw(st.sampled_from([0, 1, 1, 2, 3, 5])))]
        if shape == 'trailing-header':
            items.append(draw(_header()))
    return {
        'mode': 'stream',
        'shape': shape,
        'items': items,
        'storage': draw(st.sampled_from(['uint8', 'uint8', 'int8'])),
        'dtype': draw(_dtype),
        'pos': draw(_outmode),
        'vel': draw(_outmode),
        'box': draw(_box),
        'velz': draw(_velz),
    }


_fr = st.one_of(st.sampled_from([-0.5, 0.5, 0.0, 0.49975, -0.49975, 0.00025, -0.00025, 0.25]), st.floats(-0.5, 0.5, allow_nan=False))
_vu = st.one_of(st.sampled_from([-1.0, 1.0, 0.0, 0.5 / 2047, -0.5 / 2047, 0.9999]), st.floats(-1.0, 1.0, allow_nan=False))


@st.composite
def _phys_desc(draw):
    cells = []
    for _ in range(draw(st.integers(1, 3))):
        h = draw(_header())
        if h[2] == 0:
            h[2] = 1
        parts = [[draw(_fr) for _ in range(3)] + [draw(_vu) for _ in range(3)] for _ in range(draw(st.integers(1, 4)))]
        cells.append({'hdr': h, 'parts': parts})
    return {'mode': 'phys', 'cells': cells, 'dtype': draw(_dtype), 'box': draw(_box), 'velz': draw(_velz)}


def strategy(tier):
    return st.one_of(_stream_desc(), _stream_desc(), _stream_desc(), _phys_desc())


# --------------------------------------------------------------------------- bookkeeping


def _segments(items):
    """[(header item or None, n particles)] in stream order; consecutive headers give n=0 segments."""
    segs = []
    cur = [None, 0]
    for it in items:
        if it[0] == 'H':
            segs.append(tuple(cur))
            cur = [tuple(it[1:6]), 0]
        else:
            cur[1] += 1
    segs.append(tuple(cur))
    return segs


def nontrivial(d):
    if d['mode'] == 'p9-field':
        return True
    if d['mode'] == 'phys':
        return len({tuple(c['hdr'][1:6]) for c in d['cells']}) >= 2
    used = {h for h, n in _segments(d['items']) if h is not None and n >= 1}
    return len({(h[0], h[2], h[3], h[4]) for h in used}) >= 2


def classes(d):
    c = ['mode=' + d['mode'], 'dtype=' + d['dtype']]
    if d['mode'] == 'stream':
        segs = _segments(d['items'])
        c.append('shape=' + d['shape'])
        c.append('storage=' + d['storage'])
        c.append('out=%s/%s' % (d['pos'], d['vel']))
        if segs[0][0] is None and segs[0][1] > 0:
            c.append('particles-before-header')
        if any(h is not None and n == 0 for h, n in segs):
            c.append('header-without-particles')
        if any(it[0] == 'R' for it in d['items']):
            c.append('raw-byte-records')
        nh = sum(1 for it in d['items'] if it[0] == 'H')
        c.append('headers=%s' % (nh if nh < 3 else '3+'))
    elif d['mode'] == 'p9-field':
        c.append('field=%d' % d['field'])
    return c


def _dt(name):
    return {'float32': np.float32, 'float64': np.float64}[name]


def _build(items):
    recs = np.empty((len(items), 9), dtype=np.uint8)
    for n, it in enumerate(items):
        if it[0] == 'H':
            cpd, vf, i, j, k, nib = (int(x) for x in it[1:7])
            if not (1 <= cpd <= 4047 and 0 <= vf <= 4047 and all(0 <= q < cpd for q in (i, j, k)) and 0 <= nib <= 15):
                raise Reject('header outside the documented domain')
            recs[n] = D.pack9_encode_header(cpd, vf, (i, j, k), nib)
        elif it[0] == 'P':
            f = [int(x) for x in it[1:7]]
            if len(f) != 6 or not all(0 <= x <= 4095 for x in f) or f[0] >= 0xFF0:
                raise Reject('particle fields')
            recs[n] = D.pack9_encode_particle(f)
        elif it[0] == 'R':
            b = [int(x) for x in it[1:10]]
            if len(b) != 9 or not all(0 <= x <= 255 for x in b) or b[0] == 0xFF:
                raise Reject('raw record')
            recs[n] = b
        else:
            raise Reject('item kind')
    return recs


def _cmp(got, exp, tol, sig, what, rows=None):
    g = np.asarray(got, dtype=np.float64)
    e = np.asarray(exp, dtype=np.float64)
    if g.shape != e.shape:
        raise Violation('pack9-shape', '%s: shape %s expected %s' % (what, g.shape, e.shape))
    ok = np.abs(g - e) <= tol
    if rows is not None:
        ok = ok | ~rows[:, None]
    if not ok.all():
        i = tuple(int(x) for x in np.argwhere(~ok)[0])
        t = tol[i] if isinstance(tol, np.ndarray) else tol
        raise Violation(sig, '%s: %d of %d values off; first at particle %d axis %d: got %r expected %r (tol %.3g)' % (what, int((~ok).sum()), ok.size, i[0], i[1], float(g[i]), float(e[i]), float(t)))


def _decode_and_check(recs, box, velz, dtype, posmode, velmode, storage, what, truth=None):
    """Run the repository decoder on `recs` in the requested mode and judge it. truth: optional
    (pos_true, vel_true, pos_quantum[n,1], vel_quantum[n,1]) for the encoder round trip."""
    from abacusnbody.data import pack9

    recs = np.ascontiguousarray(recs, dtype=np.uint8).reshape(-1, 9)
    nrec = len(recs)
    data = recs.view(np.int8).copy() if storage == 'int8' else recs.copy()
    keep = data.copy()
    (rpos, rvel, info) = D.ref_pack9_decode(recs, box, velz, dtype, info=True)
    n = info['n']
    if n != int(np.sum(recs[:, 0] != 0xFF)):
        raise RuntimeError('reference count bookkeeping')  # harness error, cannot happen

    kw = {}
    bufs = {}
    for name, mode in (('pos', posmode), ('vel', velmode)):
        if mode == 'false':
            kw[name + 'out'] = False
        elif mode == 'arr':
            buf = np.full((nrec + 2 * M, 3), SENT, dtype=dtype)
            bufs[name] = buf
            kw[name + 'out'] = buf[M : M + nrec]
        elif mode == 'tight':
            # a supplied output with exactly one row per particle (fewer rows than records when the stream has headers)
            buf = np.full((n + 2 * M, 3), SENT, dtype=dtype)
            bufs[name] = buf
            kw[name + 'out'] = buf[M : M + n]
        elif mode == 'strided':
            # a non-contiguous (nrec,3) view: one half of an (nrec,6) phase-space block
            buf = np.full((nrec + 2 * M, 6), SENT, dtype=dtype)
            bufs[name] = buf
            kw[name + 'out'] = buf[M : M + nrec, :3] if name == 'pos' else buf[M : M + nrec, 3:]
    ret = call_repo(pack9.unpack_pack9, data, box, velz, float_dtype=dtype, **kw)
    if not np.array_equal(data, keep):
        raise Violation('input-modified', 'unpack_pack9 changed its input')
    if not (isinstance(ret, tuple) and len(ret) == 2):
        raise Violation('pack9-return', '%s: return value is %r' % (what, type(ret)))

    e = 6 * D.feps(dtype)
    with np.errstate(invalid='ignore'):
        ptol = e * info['pos_scale']
        vtol = e * info['vel_scale']
    defined = info['defined']
    outs = {}
    for k, (name, mode) in enumerate((('pos', posmode), ('vel', velmode))):
        w = '%s %s' % (what, name)
        if mode == 'none':
            a = ret[k]
            if not isinstance(a, np.ndarray) or a.ndim != 2 or a.shape[1] != 3 or a.dtype != np.dtype(dtype):
                raise Violation('pack9-shape', '%s: allocated output is %r %r' % (w, getattr(a, 'shape', a), getattr(a, 'dtype', None)))
            if len(a) != n:
                raise Violation('pack9-count', '%s: %d particles returned, the stream has %d non-header records out of %d' % (w, len(a), n, nrec))
            outs[name] = a
        elif mode == 'strided':
            if isinstance(ret[k], np.ndarray) or int(ret[k]) != n:
                raise Violation('pack9-count', '%s: supplied output, returned count %r, the stream has %d non-header records out of %d' % (w, ret[k], n, nrec))
            buf = bufs[name]
            mine = buf[M : M + nrec, :3] if name == 'pos' else buf[M : M + nrec, 3:]
            other = buf[M : M + nrec, 3:] if name == 'pos' else buf[M : M + nrec, :3]
            if not (np.all(buf[:M] == SENT) and np.all(buf[M + nrec :] == SENT) and np.all(other == SENT) and np.all(mine[n:] == SENT)):
                raise Violation('pack9-canary', '%s: wrote outside the supplied (strided) output' % w)
            outs[name] = np.ascontiguousarray(mine[:n])
        elif mode == 'tight':
            if isinstance(ret[k], np.ndarray) or int(ret[k]) != n:
                raise Violation('pack9-count', '%s: supplied output with one row per particle, returned count %r, the stream has %d non-header records out of %d' % (w, ret[k], n, nrec))
            buf = bufs[name]
            if not (np.all(buf[:M] == SENT) and np.all(buf[M + n :] == SENT)):
                raise Violation('pack9-canary', '%s: wrote outside the supplied output' % w)
            outs[name] = buf[M : M + n]
        elif mode == 'arr':
            if isinstance(ret[k], np.ndarray) or int(ret[k]) != n:
                raise Violation('pack9-count', '%s: supplied output, returned count %r, the stream has %d non-header records out of %d' % (w, ret[k], n, nrec))
            buf = bufs[name]
            if not (np.all(buf[:M] == SENT) and np.all(buf[M + nrec :] == SENT)):
                raise Violation('pack9-canary', '%s: wrote outside the supplied output' % w)
            outs[name] = buf[M : M + n]
        else:
            if isinstance(ret[k], np.ndarray) and ret[k].size:
                raise Violation('pack9-return', '%s: not requested but an array was returned' % w)
            if not isinstance(ret[k], np.ndarray) and int(ret[k]) != 0:
                raise Violation('pack9-return', '%s: not requested, but %r particles are reported as unpacked into it' % (w, ret[k]))
    if 'pos' in outs:
        _cmp(outs['pos'], rpos, np.where(defined[:, None], ptol, 0.0), 'pack9-pos-wrong', what + ' pos', rows=defined)
    if 'vel' in outs:
        _cmp(outs['vel'], rvel, np.where(defined[:, None], vtol, 0.0), 'pack9-vel-wrong', what + ' vel', rows=defined)
    if truth is not None:
        pt, vt, pq, vq = truth
        if 'pos' in outs:
            _cmp(outs['pos'], pt, pq + ptol + 16 * D.feps(np.float64) * info['pos_scale'], 'pack9-roundtrip-pos', what + ' round-trip pos')
        if 'vel' in outs:
            _cmp(outs['vel'], vt, vq + vtol + 16 * D.feps(np.float64) * np.abs(vt), 'pack9-roundtrip-vel', what + ' round-trip vel')
    # history: a result handed back by an earlier call stays the decode of *its* stream when another stream of the same
    # length and float type is decoded afterwards (package-allocated outputs must not be shared between calls)
    mine = [(name, outs[name]) for name, mode in (('pos', posmode), ('vel', velmode)) if mode == 'none']
    if mine and nrec:
        snap = [(name, a, a.copy()) for name, a in mine]
        other = recs.copy()
        part = other[:, 0] != 0xFF
        other[part, 1:] ^= 0x5A
        call_repo(pack9.unpack_pack9, other, box, velz, float_dtype=dtype)
        for name, a, c in snap:
            if not np.array_equal(a, c, equal_nan=True):
                raise Violation('pack9-result-aliased', '%s %s: the array returned earlier changed when a second stream of the same length was decoded' % (what, name))
        _counts['history_rechecks'] += 1
    _counts['records_decoded'] += nrec
    _counts['particles_compared'] += int(defined.sum()) * len(outs)


# --------------------------------------------------------------------------- cases


def _run_field(d):
    k = int(d['field'])
    rng = np.random.Generator(np.random.PCG64(0xC15 + 1000 * k + int(d['fill_seed'])))
    nv = 4080 if k == 0 else 4096
    f = rng.integers(0, 4096, size=(nv, 6), dtype=np.int64)
    f[:, 0] = np.minimum(f[:, 0], 0xFEF)
    if d['fill_seed'] == 0:
        f[:] = 0
    elif d['fill_seed'] == 1:
        f[:] = 4095
        f[:, 0] = 0xFEF
    f[:, k] = np.arange(nv)
    parts = D.pack9_from_fields(f)
    h0 = _HDRS[int(d['hdr0'])]
    h1 = _HDRS[int(d['hdr1'])]
    half = nv // 2 + 7
    recs = np.concatenate([D.pack9_encode_header(*h0)[None], parts[:half], D.pack9_encode_header(*h1)[None], parts[half:]])
    _decode_and_check(recs, float(d['box']), float(d['velz']), _dt(d['dtype']), 'none', 'none', 'uint8', 'field %d sweep fill %d %s box=%r velz=%r' % (k, d['fill_seed'], d['dtype'], d['box'], d['velz']))


def _run_stream(d):
    recs = _build(d['items'])
    what = '%d records (%s) %s %s pos=%s vel=%s box=%r velz=%r' % (len(recs), d['shape'], d['storage'], d['dtype'], d['pos'], d['vel'], d['box'], d['velz'])
    _decode_and_check(recs, float(d['box']), float(d['velz']), _dt(d['dtype']), d['pos'], d['vel'], d['storage'], what)


def _run_phys(d):
    box, velz = float(d['box']), float(d['velz'])
    recs, pt, vt, pq, vq = [], [], [], [], []
    for c in d['cells']:
        h = c['hdr']
        cpd, vf, i, j, k, nib = (int(x) for x in h[1:7])
        if not (1 <= cpd <= 4047 and 1 <= vf <= 4047 and all(0 <= q < cpd for q in (i, j, k))):
            raise Reject('header outside the documented domain')
        recs.append(D.pack9_encode_header(cpd, vf, (i, j, k), nib)[None])
        p = np.array(c['parts'], dtype=np.float64).reshape(-1, 6)
        if np.any(np.abs(p[:, :3]) > 0.5) or np.any(np.abs(p[:, 3:]) > 1.0):
            raise Reject('particle outside its cell / the velocity range')
        vunit = vf * velz / (2000.0 * cpd)
        v = p[:, 3:] * 2047 * vunit
        fields = D.pack9_particle_fields(p[:, :3], v, velz, cpd, vf)
        recs.append(D.pack9_from_fields(fields))
        cell = box / cpd
        pt.append((np.array([i, j, k]) + 0.5 + p[:, :3]) * cell - box / 2)
        vt.append(v)
        pq.append(np.full((len(p), 1), 0.0005 * cell))
        vq.append(np.full((len(p), 1), vunit))
    recs = np.concatenate(recs)
    truth = (np.concatenate(pt), np.concatenate(vt), np.concatenate(pq), np.concatenate(vq))
    _decode_and_check(recs, box, velz, _dt(d['dtype']), 'none', 'none', 'uint8', 'round trip %d cells %s box=%r velz=%r' % (len(d['cells']), d['dtype'], box, velz), truth=truth)


def run_case(d):
    m = d['mode']
    if m == 'p9-field':
        _run_field(d)
    elif m == 'stream':
        _run_stream(d)
    elif m == 'phys':
        _run_phys(d)
    else:
        raise Reject('unknown mode')
    return None
