"""Check driver: shards a property over worker processes, merges their counters,
applies the known-findings file, writes evidence and replay files, sets the exit code.

exit 0: property held on everything explored (KNOWN-FINDING lines allowed)
exit 1: `VIOLATION property=<id> replay=<path>` printed for an unlisted violation
exit 2: harness error (no VIOLATION line)
"""
import argparse
import importlib
import json
import os
import shutil
import subprocess
import sys
import tempfile
import time

from vt import env

env.setup_path()

from vt.core import desc_hash, dumps  # noqa: E402


def load_known(prop):
    path = os.path.join(env.VERIF, 'known_findings.json')
    try:
        with open(path) as f:
            data = json.load(f)
    except FileNotFoundError:
        return []
    return [e for e in data.get('findings', []) if e.get('property') == prop]


def run_workers(prop, tier, seed, cfg, workdir, replay=None):
    nshards = 1 if replay else int(cfg.get('shards', 1))
    procs = []
    for s in range(nshards):
        bc = cfg.get('boundscheck', False)
        if isinstance(bc, (list, tuple)):
            bc = bc[s % len(bc)]
        e = env.worker_env(numba_threads=cfg.get('numba_threads'), boundscheck=bc, extra=cfg.get('env'))
        out = os.path.join(workdir, 'shard%02d.json' % s)
        cmd = [env.PYTHON, '-m', 'vt.worker', '--prop', prop, '--tier', tier, '--seed', str(seed), '--shard', str(s), '--nshards', str(nshards), '--out', out]
        if replay:
            cmd += ['--replay', os.path.abspath(replay)]
        log = open(os.path.join(workdir, 'shard%02d.log' % s), 'w')
        ee = dict(e)
        ee['VERIF_SCRATCH'] = os.path.join(workdir, 'scratch%02d' % s)
        os.makedirs(ee['VERIF_SCRATCH'], exist_ok=True)
        procs.append((s, out, log, subprocess.Popen(cmd, cwd=env.VERIF, env=ee, stdout=log, stderr=subprocess.STDOUT)))
    results, errors = [], []
    for s, out, log, p in procs:
        rc = p.wait()
        log.close()
        if os.path.exists(out):
            with open(out) as f:
                results.append(json.load(f))
        else:
            with open(log.name) as f:
                tail = f.read()[-3000:]
            cur = None
            if rc < 0 and os.path.exists(out + '.current'):
                try:
                    with open(out + '.current') as f:
                        cur = json.load(f)
                except Exception:
                    cur = None
            if cur is not None:
                # the interpreter was killed by a signal while the code under test was running this
                # descriptor: memory corruption / abort in the code under test, not a harness error
                import signal as _signal

                try:
                    signame = _signal.Signals(-rc).name
                except ValueError:
                    signame = 'SIG%d' % -rc
                sig = 'process-killed:%s' % signame
                results.append({'evaluations': 1, 'nt_hashes': [], 'classes': {}, 'rejects': {}, 'by_origin': {'crashed': 1}, 'samples': [], 'harness_errors': [],
                                'violations': {sig: {'count': 1, 'desc': cur['desc'], 'detail': 'worker shard %d died with %s while running this case (origin %s); log tail: %s' % (s, signame, cur.get('origin'), tail[-400:]), 'origin': 'crash-journal', 'size': len(dumps(cur['desc']))}},
                                'corpus_results': {}, 'replay_signature': sig})
            else:
                errors.append('shard %d exited %d without a result:\n%s' % (s, rc, tail))
    return results, errors


def main(argv=None):
    ap = argparse.ArgumentParser(prog='check')
    ap.add_argument('prop')
    ap.add_argument('--tier', default=None, choices=['quick', 'thorough'])
    ap.add_argument('--replay', default=None)
    ap.add_argument('--seed', type=int, default=None)
    a = ap.parse_args(argv)
    prop = a.prop.upper()
    tier = a.tier or os.environ.get('VERIF_TIER') or 'quick'
    if tier not in ('quick', 'thorough'):
        tier = 'quick'
    try:
        seed = a.seed if a.seed is not None else int(os.environ.get('VERIF_SEED', '1') or 1)
    except ValueError:
        seed = 1

    t0 = time.time()
    try:
        mod = importlib.import_module('vt.props.' + prop.lower())
        cfg = mod.config(tier)
    except Exception as e:  # harness problem, never a violation
        print('HARNESS-ERROR: cannot load check for %s: %r' % (prop, e))
        return 2

    scratch_root = os.path.join(env.VERIF, '.work')
    os.makedirs(scratch_root, exist_ok=True)
    workdir = tempfile.mkdtemp(prefix='%s-%s-' % (prop, tier), dir=scratch_root)
    try:
        results, errors = run_workers(prop, tier, seed, cfg, workdir, replay=a.replay)
    finally:
        keep = os.environ.get('VERIF_KEEP_WORK')
        if not keep:
            shutil.rmtree(workdir, ignore_errors=True)

    known = load_known(prop)
    known_sigs = {e['signature']: e for e in known if e.get('status') == 'known'}

    # merge
    evaluations = sum(r['evaluations'] for r in results)
    nt = set()
    classes, rejects, by_origin = {}, {}, {}
    samples, harness_errors = [], list(errors)
    violations = {}
    corpus_results = {}
    skipped = 0
    exh_complete = None
    exh_count = 0
    extra = {}
    for r in results:
        nt.update(r['nt_hashes'])
        for k, v in r['classes'].items():
            classes[k] = classes.get(k, 0) + v
        for k, v in r['rejects'].items():
            rejects[k] = rejects.get(k, 0) + v
        for k, v in r['by_origin'].items():
            by_origin[k] = by_origin.get(k, 0) + v
        samples += r['samples'][:2]
        for he in r['harness_errors']:
            harness_errors.append(he.get('traceback') or he.get('error') or str(he))
        for sig, rec in r['violations'].items():
            cur = violations.get(sig)
            if cur is None:
                violations[sig] = dict(rec)
            else:
                cur['count'] += rec['count']
                if rec['size'] < cur['size']:
                    cnt = cur['count']
                    cur.update(rec)
                    cur['count'] = cnt
        corpus_results.update(r['corpus_results'])
        skipped += r.get('skipped_budget', 0)
        if r.get('exhaustive_complete') is not None:
            exh_complete = (exh_complete is not False) and bool(r['exhaustive_complete'])
            exh_count += r.get('exhaustive_count', 0)
        if r.get('extra'):
            for k, v in r['extra'].items():
                if isinstance(v, (int, float)) and not isinstance(v, bool):
                    extra[k] = extra.get(k, 0) + v
                else:
                    extra.setdefault(k, v)

    if a.replay:
        sig = results[0].get('replay_signature') if results else None
        if harness_errors and sig is None:
            print('HARNESS-ERROR:\n' + '\n'.join(map(str, harness_errors))[:4000])
            return 2
        if sig is None:
            print('REPLAY-OK property=%s replay=%s' % (prop, a.replay))
            return 0
        det = violations.get(sig, {}).get('detail', '')
        if sig in known_sigs:
            print('KNOWN-FINDING: property=%s %s' % (prop, known_sigs[sig].get('what', sig)))
            return 0
        print('signature=%s\n%s' % (sig, det))
        print('VIOLATION property=%s replay=%s' % (prop, a.replay))
        return 1

    # classify violations
    new = {s: r for s, r in violations.items() if s not in known_sigs}
    excluded_known = sum(r['count'] for s, r in violations.items() if s in known_sigs)

    lines = []
    replay_dir = os.path.join(env.VERIF, 'replays')
    for sig, rec in sorted(new.items()):
        os.makedirs(replay_dir, exist_ok=True)
        path = os.path.join(replay_dir, '%s-%s.json' % (prop, desc_hash({'s': sig, 'd': rec['desc']})))
        with open(path, 'w') as f:
            f.write(dumps({'property': prop, 'signature': sig, 'detail': rec['detail'], 'origin': rec['origin'], 'count_in_run': rec['count'], 'desc': rec['desc']}, indent=1))
        rel = os.path.relpath(path, env.VERIF)
        lines.append((sig, rec, rel))

    # known findings: print once per listed finding whose saved input still fails
    for e in known:
        if e.get('status') != 'known':
            continue
        still = e['signature'] in violations
        if still:
            print('KNOWN-FINDING: property=%s %s' % (prop, e.get('what', e['signature'])))

    wall = time.time() - t0
    samples = samples[:5]
    if not samples:
        samples = [r['samples'][0] for r in results if r['samples']][:1]
    coverage = {
        'evaluations': evaluations,
        'distinct_nontrivial': len(nt),
        'rule': getattr(mod, 'RULE', ''),
        'samples': samples,
        'by_origin': by_origin,
        'classes': dict(sorted(classes.items())),
        'rejected_out_of_domain': rejects,
        'excluded_known_finding_cases': excluded_known,
        'skipped_after_soft_budget': skipped,
        'shards': len(results),
        'corpus_files_replayed': len(corpus_results),
        'violation_signatures': sorted(violations),
    }
    if exh_complete is not None:
        # `exhaustive` is reserved for checks whose *whole* quantified domain is finite and was enumerated (C18: all valid codes);
        # everywhere else only a named sub-space is enumerated completely and the rest of the domain is sampled
        sub_ok = bool(exh_complete) and not harness_errors
        coverage['exhaustive'] = sub_ok and bool(getattr(mod, 'FULLY_EXHAUSTIVE', False))
        coverage['exhaustive_subspace_complete'] = sub_ok
        coverage['exhaustive_subspace_cases'] = exh_count
        coverage['exhaustive_subspace'] = getattr(mod, 'EXHAUSTIVE_NOTE', {}).get(tier, '') if isinstance(getattr(mod, 'EXHAUSTIVE_NOTE', None), dict) else getattr(mod, 'EXHAUSTIVE_NOTE', '')
    if extra:
        coverage['extra'] = extra
    if harness_errors:
        coverage['harness_errors'] = [str(h)[-600:] for h in harness_errors[:3]]
    evidence = {
        'property_id': prop,
        'tier': tier,
        'seed': seed,
        'level': 'exploration',
        'coverage': coverage,
        'assumptions': list(getattr(mod, 'ASSUMPTIONS', [])),
        'wall_s': round(wall, 2),
        'violations': len(new),
    }
    os.makedirs(os.path.join(env.VERIF, 'evidence'), exist_ok=True)
    with open(os.path.join(env.VERIF, 'evidence', prop + '.json'), 'w') as f:
        f.write(dumps(evidence, indent=1))
        f.write('\n')

    print('%s %s seed=%d: %d cases (%s), %d distinct non-trivial, %d rejected, %d known-excluded, %.1fs' % (prop, tier, seed, evaluations, ', '.join('%s=%d' % kv for kv in sorted(by_origin.items())), len(nt), sum(rejects.values()), excluded_known, wall))
    for sig, rec, rel in lines:
        print('signature=%s count=%d origin=%s\n  %s' % (sig, rec['count'], rec['origin'], rec['detail'].replace('\n', '\n  ')[:1500]))
        print('VIOLATION property=%s replay=%s' % (prop, rel))
    if lines:
        return 1
    if harness_errors:
        print('HARNESS-ERROR (%d):\n%s' % (len(harness_errors), '\n---\n'.join(str(h) for h in harness_errors[:3])[:6000]))
        return 2
    if evaluations == 0:
        print('HARNESS-ERROR: no cases executed')
        return 2
    return 0


if __name__ == '__main__':
    sys.exit(main())
