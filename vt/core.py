"""Verdict types, descriptor hashing, JSON helpers."""
import hashlib
import json
import math


class Violation(Exception):
    """The real code broke the property on this descriptor.

    signature: root-cause key (stable string), detail: human readable."""

    def __init__(self, signature, detail=''):
        super().__init__(signature, detail)
        self.signature = str(signature)
        self.detail = str(detail)[:4000]


class Reject(Exception):
    """Descriptor is outside the documented input domain (counted, never silent)."""

    def __init__(self, reason=''):
        super().__init__(reason)
        self.reason = str(reason)


class RepoRaised(Violation):
    """The code under test raised on an input for which the property promises success."""


def call_repo(fn, *args, _sig=None, **kwargs):
    """Call code under test; an exception becomes a Violation with a root-cause signature."""
    try:
        return fn(*args, **kwargs)
    except (Violation, Reject):
        raise
    except BaseException as e:  # numba surfaces bounds errors as SystemError/IndexError
        if isinstance(e, (KeyboardInterrupt, MemoryError)):
            raise
        name = getattr(fn, '__name__', None) or getattr(getattr(fn, 'py_func', None), '__name__', repr(fn))
        sig = _sig or ('raised:%s:%s' % (type(e).__name__, name))
        raise RepoRaised(sig, '%s: %s' % (type(e).__name__, str(e)[:1500])) from e


def _default(o):
    import numpy as np

    if isinstance(o, (np.integer,)):
        return int(o)
    if isinstance(o, (np.floating,)):
        return float(o)
    if isinstance(o, np.bool_):
        return bool(o)
    if isinstance(o, np.ndarray):
        return o.tolist()
    if isinstance(o, (set, frozenset, tuple)):
        return list(o)
    if isinstance(o, bytes):
        return o.hex()
    raise TypeError(type(o))


def dumps(desc, **kw):
    return json.dumps(desc, sort_keys=True, default=_default, allow_nan=True, **kw)


def desc_hash(desc):
    return hashlib.sha1(dumps(desc).encode()).hexdigest()[:16]


def fhex(x):
    """float -> hex string (exact, JSON safe)."""
    x = float(x)
    if math.isnan(x):
        return 'nan'
    return x.hex()


def unhex(s):
    if isinstance(s, (int, float)):
        return float(s)
    if s == 'nan':
        return float('nan')
    return float.fromhex(s)
