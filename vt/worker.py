"""One shard of one check: corpus replay -> exhaustive sub-space -> Hypothesis search -> shrink.

Run as:  python -m vt.worker --prop C19 --tier quick --seed 1 --shard 0 --nshards 4 --out FILE
Every random choice is made by Hypothesis from a seed derived from
(VERIF_SEED, shard, property); nothing reads the clock for a decision except the
soft budget, which only ever makes a run explore *less* (never a violation).
"""
import argparse
import glob
import importlib
import json
import os
import sys
import time
import traceback
import zlib

from vt import env

env.setup_path()

from vt.core import Reject, Violation, desc_hash, dumps  # noqa: E402


class Shard:
    def __init__(self, mod, tier):
        self.mod = mod
        self.tier = tier
        self.evaluations = 0
        self.by_origin = {}
        self.rejects = {}
        self.nt_hashes = set()
        self.all_hashes = set()
        self.classes = {}
        self.samples = []
        self.violations = {}  # sig -> dict(count, desc, detail, origin, index)
        self.corpus_results = {}
        self.harness_errors = []
        self.skipped_budget = 0
        self.counting = True
        self.journal = None

    def execute(self, desc, origin):
        """Run one descriptor against the real code. Returns the violation signature or None."""
        mod = self.mod
        sig = None
        extra = None
        if self.journal:
            # crash journal: if the process dies inside run_case (abort/segfault from memory corruption
            # in the code under test), the runner reports this descriptor
            try:
                with open(self.journal, 'w') as jf:
                    jf.write(dumps({'origin': origin, 'desc': desc}))
            except Exception:
                pass
        try:
            extra = mod.run_case(desc)
        except Reject as r:
            if self.counting:
                self.rejects[r.reason] = self.rejects.get(r.reason, 0) + 1
            return None
        except Violation as v:
            sig = v.signature
            detail = v.detail
        except (KeyboardInterrupt, MemoryError):
            raise
        except BaseException as e:
            tb = traceback.extract_tb(e.__traceback__)
            in_repo = [f for f in tb if os.path.abspath(f.filename).startswith(env.REPO + os.sep)]
            if in_repo:
                f = in_repo[-1]
                sig = 'raised:%s:%s' % (type(e).__name__, f.name)
                detail = '%s: %s (at %s:%d)' % (type(e).__name__, str(e)[:800], os.path.relpath(f.filename, env.REPO), f.lineno)
            else:
                if len(self.harness_errors) < 5:
                    self.harness_errors.append({'origin': origin, 'desc': json.loads(dumps(desc)), 'traceback': traceback.format_exc()[-3000:]})
                else:
                    self.harness_errors.append({'origin': origin, 'error': repr(e)[:200]})
                return None
        if not self.counting:
            return sig
        self.evaluations += 1
        self.by_origin[origin.split(':')[0]] = self.by_origin.get(origin.split(':')[0], 0) + 1
        h = desc_hash(desc)
        try:
            nt = bool(mod.nontrivial(desc))
            cls = list(mod.classes(desc)) if hasattr(mod, 'classes') else []
        except Exception:
            self.harness_errors.append({'origin': origin, 'traceback': traceback.format_exc()[-2000:]})
            nt, cls = False, []
        if isinstance(extra, dict):
            if 'nontrivial' in extra:
                nt = bool(extra['nontrivial'])
            cls += list(extra.get('classes', []))
        for c in cls:
            self.classes[c] = self.classes.get(c, 0) + 1
        self.all_hashes.add(h)
        if nt:
            new = h not in self.nt_hashes
            self.nt_hashes.add(h)
            if new and origin.split(':')[0] != 'corpus':
                s = dumps(desc)
                if len(s) <= 2500 and (len(self.samples) < 4 or (self.evaluations % 97 == 0 and len(self.samples) < 8)):
                    self.samples.append(json.loads(s))
        if sig is not None:
            rec = self.violations.get(sig)
            s = dumps(desc)
            if rec is None:
                self.violations[sig] = {'count': 1, 'desc': json.loads(s), 'detail': detail, 'origin': origin, 'size': len(s)}
            else:
                rec['count'] += 1
                if len(s) < rec['size']:
                    rec.update(desc=json.loads(s), detail=detail, origin=origin, size=len(s))
        return sig


def derive_seed(seed, shard, prop):
    return (int(seed) * 1000003 + int(shard) * 7919 + zlib.crc32(prop.encode())) % (2**63)


def hypothesis_phase(sh, strategy, n_examples, hseed, soft_deadline):
    import hypothesis
    from hypothesis import HealthCheck, Phase, given, settings

    idx = {'i': 0, 'first_fail': {}}

    @hypothesis.seed(hseed)
    @settings(
        max_examples=n_examples,
        database=None,
        deadline=None,
        derandomize=False,
        report_multiple_bugs=False,
        phases=[Phase.generate],
        suppress_health_check=[HealthCheck.too_slow, HealthCheck.data_too_large],
        print_blob=False,
    )
    @given(strategy)
    def search(desc):
        i = idx['i']
        idx['i'] += 1
        if soft_deadline and time.time() > soft_deadline:
            sh.skipped_budget += 1
            return
        sig = sh.execute(desc, 'hypothesis')
        if sig is not None and sig not in idx['first_fail']:
            idx['first_fail'][sig] = i

    search()
    return idx['first_fail']


def shrink_phase(sh, strategy, hseed, sig, upto, max_calls=400):
    """Re-run the same seeded search up to the first failing example of `sig` and let
    Hypothesis shrink it.  Bounded by a call budget (the shrinker has no time limit of its own)."""
    import hypothesis
    from hypothesis import HealthCheck, Phase, given, settings

    state = {'calls': 0, 'best': None, 'failing': False}

    class _Fail(Exception):
        pass

    @hypothesis.seed(hseed)
    @settings(
        max_examples=upto + 1,
        database=None,
        deadline=None,
        derandomize=False,
        report_multiple_bugs=False,
        phases=[Phase.generate, Phase.shrink],
        suppress_health_check=list(HealthCheck),
        print_blob=False,
    )
    @given(strategy)
    def search(desc):
        if state['failing']:
            state['calls'] += 1
            if state['calls'] > max_calls:
                return
        got = sh.execute(desc, 'shrink')
        if got == sig:
            state['failing'] = True
            state['best'] = json.loads(dumps(desc))
            raise _Fail(sig)

    sh.counting = False
    try:
        search()
    except BaseException:
        pass
    finally:
        sh.counting = True
    return state['best'], state['calls']


def main(argv=None):
    ap = argparse.ArgumentParser()
    ap.add_argument('--prop', required=True)
    ap.add_argument('--tier', default='quick')
    ap.add_argument('--seed', type=int, default=1)
    ap.add_argument('--shard', type=int, default=0)
    ap.add_argument('--nshards', type=int, default=1)
    ap.add_argument('--out', required=True)
    ap.add_argument('--replay', default=None)
    a = ap.parse_args(argv)

    t0 = time.time()
    os.environ['VERIF_SHARD'] = str(a.shard)
    try:
        env.register_asdf()  # do not depend on an installed entry point / egg-info next to the sources
    except Exception:
        pass
    mod = importlib.import_module('vt.props.' + a.prop.lower())
    cfg = mod.config(a.tier)
    if cfg.get('soft_s') and os.environ.get('VERIF_SOFT_SCALE'):
        cfg['soft_s'] = cfg['soft_s'] * float(os.environ['VERIF_SOFT_SCALE'])  # debugging aid: reach further on a loaded machine
    sh = Shard(mod, a.tier)
    sh.journal = a.out + '.current'
    out = {'prop': a.prop, 'tier': a.tier, 'seed': a.seed, 'shard': a.shard}
    exhaustive_complete = None
    exhaustive_count = 0
    try:
        if hasattr(mod, 'setup'):
            mod.setup(a.tier)
        if a.replay:
            with open(a.replay) as f:
                rec = json.load(f)
            desc = rec['desc'] if isinstance(rec, dict) and 'desc' in rec else rec
            sig = sh.execute(desc, 'replay')
            out['replay_signature'] = sig
        else:
            # 1. saved corpus (boundary cases, shrunk failures, inputs of fixed/known findings)
            files = sorted(glob.glob(os.path.join(env.VERIF, 'corpus', a.prop, '*.json')))
            for k, fn in enumerate(files):
                if k % a.nshards != a.shard:
                    continue
                with open(fn) as f:
                    rec = json.load(f)
                desc = rec['desc'] if isinstance(rec, dict) and 'desc' in rec else rec
                sig = sh.execute(desc, 'corpus:' + os.path.basename(fn))
                sh.corpus_results[os.path.basename(fn)] = sig
            # 2. exhaustively enumerated sub-spaces
            if hasattr(mod, 'exhaustive'):
                # the enumerated part may use at most `exhaustive_share` of the soft budget, so that the generated search always runs
                soft = t0 + cfg['soft_s'] * float(cfg.get('exhaustive_share', 0.5)) if cfg.get('soft_s') else None
                exhaustive_complete = True
                for desc in mod.exhaustive(a.tier, a.shard, a.nshards):
                    if soft and time.time() > soft:
                        exhaustive_complete = False
                        break
                    sh.execute(desc, 'exhaustive')
                    exhaustive_count += 1
            # 3. generated search
            n = int(cfg.get('examples', 0))
            first_fail = {}
            hseed = derive_seed(a.seed, a.shard, a.prop)
            if n > 0:
                strategy = mod.strategy(a.tier)
                soft = t0 + cfg['soft_s'] if cfg.get('soft_s') else None
                first_fail = hypothesis_phase(sh, strategy, n, hseed, soft)
            # 4. shrink new (unlisted) failures
            if first_fail and cfg.get('shrink', True):
                known = set()
                try:
                    with open(os.path.join(env.VERIF, 'known_findings.json')) as f:
                        for e in json.load(f).get('findings', []):
                            if e.get('status') == 'known':
                                known.add(e.get('signature'))
                except FileNotFoundError:
                    pass
                todo = [s for s in first_fail if s not in known][: int(cfg.get('shrink_max_sigs', 2))]
                for sig in todo:
                    best, calls = shrink_phase(sh, mod.strategy(a.tier), hseed, sig, first_fail[sig], int(cfg.get('shrink_calls', 300)))
                    if best is not None:
                        s = dumps(best)
                        rec = sh.violations[sig]
                        if len(s) <= rec['size']:
                            rec.update(desc=best, size=len(s), origin='hypothesis:shrunk(%d calls)' % calls)
    except BaseException:
        sh.harness_errors.append({'origin': 'worker', 'traceback': traceback.format_exc()[-4000:]})
    out.update(
        evaluations=sh.evaluations,
        by_origin=sh.by_origin,
        rejects=sh.rejects,
        nt_hashes=sorted(sh.nt_hashes),
        distinct_total=len(sh.all_hashes),
        classes=sh.classes,
        samples=sh.samples,
        violations=sh.violations,
        corpus_results=sh.corpus_results,
        harness_errors=sh.harness_errors,
        skipped_budget=sh.skipped_budget,
        exhaustive_complete=exhaustive_complete,
        exhaustive_count=exhaustive_count,
        wall_s=time.time() - t0,
    )
    if hasattr(mod, 'extra_evidence'):
        try:
            out['extra'] = mod.extra_evidence()
        except Exception:
            pass
    tmp = a.out + '.tmp'
    with open(tmp, 'w') as f:
        f.write(dumps(out))
    os.replace(tmp, a.out)
    return 0


if __name__ == '__main__':
    sys.exit(main())
