"""Row-by-row Python model of the HOD threshold rule (DESIGN 3.6) + table builder for C09/C10.

Slice widths are obtained by calling the package's own scalar mean-occupation functions one host at a time (as the
property words it); everything built on top (stacking LRG->ELG->QSO, incompleteness, multiplicity/weight, rank decorator,
assembly bias, ELG conformity through the particle's host, velocity bias, RSD/wrap) is written here from the statement.
Hosts whose random lies within EDGE_TOL (relative) of a slice edge are optional: every positive-width slice within the tolerance is accepted.
"""
import numpy as np

EDGE_TOL = 1e-12
TRACERS = ['LRG', 'ELG', 'QSO']

DEFAULTS = {
    'LRG': dict(logM_cut=13.3, logM1=14.3, sigma=0.3, alpha=1.0, kappa=0.4, alpha_c=0.0, alpha_s=1.0, s=0.0, s_v=0.0, s_p=0.0, s_r=0.0, Acent=0.0, Asat=0.0, Bcent=0.0, Bsat=0.0, ic=0.97),
    'ELG': dict(p_max=0.33, Q=100.0, logM_cut=11.75, kappa=1.0, sigma=0.58, logM1=13.53, alpha=1.0, gamma=4.12, A_s=1.0, alpha_c=0.0, alpha_s=1.0, s=0.0, s_v=0.0, s_p=0.0, s_r=0.0,
                Acent=0.0, Asat=0.0, Bcent=0.0, Bsat=0.0, Ccent=0.0, Csat=0.0, ic=1.0),
    'QSO': dict(logM_cut=12.21, kappa=1.0, sigma=0.56, logM1=13.94, alpha=0.4, alpha_c=0.0, alpha_s=1.0, s=0.0, s_v=0.0, s_p=0.0, s_r=0.0, Acent=0.0, Asat=0.0, Bcent=0.0, Bsat=0.0, ic=1.0),
}


def build_tables(d):
    """Deterministic halo/particle tables from the descriptor (bulk values from d['seed'])."""
    rng = np.random.Generator(np.random.PCG64(int(d['seed'])))
    H, P = int(d['H']), int(d['P'])
    L = float(d['L'])
    hd = {}
    hd['hpos'] = rng.uniform(-L / 2, L / 2, size=(H, 3))
    hd['hvel'] = rng.normal(size=(H, 3)) * 300.0
    hd['hmass'] = 10.0 ** rng.uniform(float(d.get('logm_lo', 11.0)), float(d.get('logm_hi', 15.0)), size=H)
    hd['hid'] = np.sort(rng.choice(10**9, size=H, replace=False)).astype(np.int64)
    mk = d.get('multis', 'one')
    if mk == 'one':
        hd['hmultis'] = np.ones(H)
    elif mk == 'ints':
        hd['hmultis'] = rng.integers(1, 4, size=H).astype(np.float64)
    else:
        hd['hmultis'] = rng.uniform(0.2, 1.0, size=H)
    hd['hrandoms'] = rng.uniform(0, 1, size=H)
    hd['hveldev'] = rng.normal(size=(H, 3)) * 100.0
    hd['hsigma3d'] = rng.uniform(100, 1000, size=H)
    hd['hc'] = rng.uniform(2, 10, size=H)
    hd['hrvir'] = rng.uniform(0.1, 2, size=H)
    hd['hdeltac'] = rng.uniform(-0.5, 0.5, size=H)
    hd['hfenv'] = rng.uniform(-0.5, 0.5, size=H)
    hd['hshear'] = rng.uniform(-0.5, 0.5, size=H)
    pdict = {}
    pinds = np.sort(rng.integers(0, max(H, 1), size=P)).astype(np.int64) if H > 0 else np.zeros(0, np.int64)
    if H == 0:
        P = 0
    pdict['pinds'] = pinds[:P]
    pi = pdict['pinds']
    pdict['ppos'] = (hd['hpos'][pi] + rng.normal(size=(P, 3)) * 0.5) if P else np.zeros((0, 3))
    pdict['ppos'] = (pdict['ppos'] + L / 2) % L - L / 2
    pdict['pvel'] = (hd['hvel'][pi] + rng.normal(size=(P, 3)) * 200.0) if P else np.zeros((0, 3))
    pdict['phvel'] = hd['hvel'][pi].copy() if P else np.zeros((0, 3))
    pdict['phmass'] = hd['hmass'][pi].copy() if P else np.zeros(0)
    pdict['phid'] = hd['hid'][pi].copy() if P else np.zeros(0, np.int64)
    pdict['pweights'] = rng.uniform(0.0, float(d.get('wmax', 0.6)), size=P)
    pdict['prandoms'] = rng.uniform(0, 1, size=P)
    pdict['pdeltac'] = hd['hdeltac'][pi].copy() if P else np.zeros(0)
    pdict['pfenv'] = hd['hfenv'][pi].copy() if P else np.zeros(0)
    pdict['pshear'] = hd['hshear'][pi].copy() if P else np.zeros(0)
    for k in ('pranks', 'pranksv', 'pranksp', 'pranksr', 'pranksc'):
        pdict[k] = rng.uniform(-1, 1, size=P)
    params = dict(z=0.5, velz2kms=float(d.get('velz2kms', 150.0)), Lbox=L, origin=None if d.get('origin') is None else np.array(d['origin'], dtype=np.float64), Mpart=2.1e9, chunk=-1)
    tracers = {}
    for T in d['tracers']:
        p = dict(DEFAULTS[T])
        p.update({k: float(v) for k, v in d.get('hod', {}).get(T, {}).items()})
        tracers[T] = p
    return hd, pdict, tracers, params


def _occ():
    from abacusnbody.hod import GRAND_HOD as G

    return G


def central_markers(hd, tracers, i):
    """cumulative slice edges (m_LRG, m_ELG, m_QSO) for halo row i"""
    G = _occ()
    m = 0.0
    out = []
    M = float(hd['hmass'][i])
    dc, fe, sh = float(hd['hdeltac'][i]), float(hd['hfenv'][i]), float(hd['hshear'][i])
    mu = float(hd['hmultis'][i])
    if 'LRG' in tracers:
        t = tracers['LRG']
        lc = t['logM_cut'] + t.get('Acent', 0.0) * dc + t.get('Bcent', 0.0) * fe
        m += float(G.n_cen_LRG(M, lc, t['sigma'])) * t.get('ic', 1.0) * mu
    out.append(m)
    if 'ELG' in tracers:
        t = tracers['ELG']
        lc = t['logM_cut'] + t.get('Acent', 0.0) * dc + t.get('Bcent', 0.0) * fe + t.get('Ccent', 0.0) * sh
        m += float(G.N_cen_ELG_v1(M, t['p_max'], t['Q'], lc, t['sigma'], t['gamma'])) * t.get('ic', 1.0) * mu
    out.append(m)
    if 'QSO' in tracers:
        t = tracers['QSO']
        lc = t['logM_cut'] + t.get('Acent', 0.0) * dc + t.get('Bcent', 0.0) * fe
        m += float(G.N_cen_QSO(M, lc, t['sigma'])) * t.get('ic', 1.0) * mu
    out.append(m)
    return out


def satellite_markers(pd_, tracers, j, host_code, enable_ranks):
    G = _occ()
    M = float(pd_['phmass'][j])
    dc, fe, sh = float(pd_['pdeltac'][j]), float(pd_['pfenv'][j]), float(pd_['pshear'][j])
    w = float(pd_['pweights'][j])
    out = []
    m = 0.0

    def deco(t):
        if not enable_ranks:
            return 1.0
        return 1 + t['s'] * float(pd_['pranks'][j]) + t['s_v'] * float(pd_['pranksv'][j]) + t['s_p'] * float(pd_['pranksp'][j]) + t['s_r'] * float(pd_['pranksr'][j])

    if 'LRG' in tracers:
        t = tracers['LRG']
        M1 = 10 ** (t['logM1'] + t.get('Asat', 0.0) * dc + t.get('Bsat', 0.0) * fe)
        lc = t['logM_cut'] + t.get('Acent', 0.0) * dc + t.get('Bcent', 0.0) * fe
        m += float(G.n_sat_LRG_modified(M, lc, 10**lc, M1, t['sigma'], t['alpha'], t['kappa'])) * w * t.get('ic', 1.0) * deco(t)
    out.append(m)
    if 'ELG' in tracers:
        t = tracers['ELG']
        lc = t['logM_cut'] + t.get('Acent', 0.0) * dc + t.get('Bcent', 0.0) * fe + t.get('Ccent', 0.0) * sh
        logM1, alpha = t['logM1'], t['alpha']
        shear_term = t.get('Csat', 0.0) * sh
        if host_code == 1:
            logM1, alpha, shear_term = t.get('logM1_EL', t['logM1']), t.get('alpha_EL', t['alpha']), 0.0
        elif host_code == 2:
            logM1, alpha, shear_term = t.get('logM1_EE', t['logM1']), t.get('alpha_EE', t['alpha']), 0.0
        M1 = 10 ** (logM1 + t.get('Asat', 0.0) * dc + t.get('Bsat', 0.0) * fe + shear_term)
        m += float(G.N_sat_elg(M, 10**lc, t['kappa'], M1, alpha, t['A_s'])) * w * t.get('ic', 1.0) * deco(t)
    out.append(m)
    if 'QSO' in tracers:
        t = tracers['QSO']
        M1 = 10 ** (t['logM1'] + t.get('Asat', 0.0) * dc + t.get('Bsat', 0.0) * fe)
        lc = t['logM_cut'] + t.get('Acent', 0.0) * dc + t.get('Bcent', 0.0) * fe
        m += float(G.N_sat_generic(M, 10**lc, t['kappa'], M1, t['alpha'])) * w * t.get('ic', 1.0) * deco(t)
    out.append(m)
    return out


def codes_for(r, markers):
    """admissible keep codes {0,1,2,3} for random r given cumulative edges.

    Code k+1 owns the slice (markers[k-1], markers[k]]; code 0 everything above the last edge.  The compiled code evaluates the edges
    with its own rounding, so every slice of positive width that comes within EDGE_TOL of r is admissible (a tie is two-sided, and a
    slice narrower than the tolerance right next to r - e.g. a 1e-14 wide QSO slice above the ELG edge r sits on - can be the one the
    compiled comparison selects)."""

    def code(x):
        for k, m in enumerate(markers):
            if x <= m:
                return k + 1
        return 0

    out = {code(r)}
    prev, tolp = -np.inf, 0.0
    for k, m in enumerate(markers):
        tolm = EDGE_TOL * max(1.0, abs(m))
        if m > prev and r > prev - tolp and r <= m + tolm:
            out.add(k + 1)
        prev, tolp = m, tolm
    if r > prev - tolp:
        out.add(0)
    return out


def _rsd(pos, vel, params, rsd):
    pos = np.array(pos, dtype=np.float64)
    if not rsd:
        return pos
    inv = 1.0 / params['velz2kms']
    if params['origin'] is not None:
        n = pos - params['origin']
        n = n / np.sqrt(np.sum(n * n))
        proj = inv * float(np.dot(vel, n))
        return pos + proj * n
    z = pos[2] + vel[2] * inv
    L = params['Lbox']
    if z >= L / 2:
        z -= L
    elif z < -L / 2:
        z += L
    pos[2] = z
    return pos


def model(hd, pd_, tracers, params, rsd, enable_ranks):
    """per tracer: ordered candidate lists cent/sat: (host index, mandatory, row[x,y,z,vx,vy,vz,mass], id)"""
    H, P = len(hd['hmass']), len(pd_['phmass'])
    cent = {T: [] for T in tracers}
    sat = {T: [] for T in tracers}
    hcodes = []
    present = [T in tracers for T in TRACERS]
    for i in range(H):
        mk = central_markers(hd, tracers, i)
        cs = codes_for(float(hd['hrandoms'][i]), mk)
        raw = set(cs)
        cs = {c if (c == 0 or present[c - 1]) else 0 for c in cs}  # a zero-width slice of a disabled tracer holds no galaxy
        # for the conformity lookup of this host's satellites every admissible keep code is allowed, including the code of a
        # disabled tracer's zero-width slice (reachable only by a random exactly on that edge, e.g. 0.0): a tie, two-sided
        hcodes.append(cs | raw)
        cs_c = cs
        for c in sorted(cs_c):
            if c == 0:
                continue
            T = TRACERS[c - 1]
            v = hd['hvel'][i] + tracers[T]['alpha_c'] * hd['hveldev'][i]
            p = _rsd(hd['hpos'][i], v, params, rsd)
            cent[T].append((i, len(cs_c) == 1, np.concatenate([p, v, [hd['hmass'][i]]]), int(hd['hid'][i])))
    for j in range(P):
        host = int(pd_['pinds'][j])
        cs = set()
        for hc in hcodes[host]:
            mk = satellite_markers(pd_, tracers, j, hc, enable_ranks)
            cs |= codes_for(float(pd_['prandoms'][j]), mk)
        cs = {c if (c == 0 or present[c - 1]) else 0 for c in cs}
        for c in sorted(cs):
            if c == 0:
                continue
            T = TRACERS[c - 1]
            v = pd_['phvel'][j] + tracers[T]['alpha_s'] * (pd_['pvel'][j] - pd_['phvel'][j])
            p = _rsd(pd_['ppos'][j], v, params, rsd)
            sat[T].append((j, len(cs) == 1, np.concatenate([p, v, [pd_['phmass'][j]]]), int(pd_['phid'][j])))
    return cent, sat, hcodes


COLS = ['x', 'y', 'z', 'vx', 'vy', 'vz', 'mass']


def rows_of(tdict):
    n = len(tdict['x'])
    R = np.empty((n, 7))
    for k, c in enumerate(COLS):
        a = np.asarray(tdict[c])
        if len(a) != n:
            return None
        R[:, k] = a
    return R


def _row_match(got, exp, L):
    tol = 1e-9 * (1.0 + np.abs(exp))
    dif = np.abs(got - exp)
    if L is not None:
        # a coordinate within rounding of +-L/2 may be wrapped either way
        dz = dif[2]
        if abs(abs(exp[2]) - L / 2) < 1e-9 * L and abs(dz - L) <= 1e-9 * L:
            dif = dif.copy()
            dif[2] = 0.0
    return bool(np.all(dif <= tol))


def walk(got_rows, got_ids, cands, L):
    """match got rows (in order) against ordered candidates; returns (ok, message, used host indices)"""
    k = 0
    used = []
    n = len(got_rows)
    for (h, mand, row, hid) in cands:
        if k < n and int(got_ids[k]) == hid and _row_match(got_rows[k], row, L):
            used.append(h)
            k += 1
        elif mand:
            if k < n:
                return False, 'expected a galaxy for host %d (id %d, row %s) at output row %d, found id %d row %s' % (h, hid, np.array2string(row, precision=6), k, int(got_ids[k]), np.array2string(got_rows[k], precision=6)), used
            return False, 'galaxy of host %d (id %d) missing: output has only %d rows' % (h, hid, n), used
    if k != n:
        return False, 'output row %d (id %d, %s) is not explained by any host under the threshold rule' % (k, int(got_ids[k]), np.array2string(got_rows[k], precision=6)), used
    return True, '', used
