"""Brute-force Fourier-mode enumerator with tie-aware bin membership (DESIGN 3.5; C08, C13).

Written from the *property statement*, not from the package:

* The object that is binned is the **full** n^3 mesh.  A half-complex (rfft) array of
  shape (n, n, n//2+1) stands for it by Hermitian completion: the full-mesh entry
  (i, j, k) with k > n//2 has the value stored at ((-i)%n, (-j)%n, n-k).
  ``full_model`` enumerates all n^3 entries with multiplicity 1.
* Equivalent bookkeeping on the stored half (``half_model``): multiplicity 1 for kz=0 and,
  for even n, kz=n/2 (both planes are self-conjugate), 2 otherwise.  ``half_model`` also
  takes switches that reproduce *wrong* conventions; these are never used to decide pass/fail,
  only to attribute an observed mismatch to a root cause.
* The integer frequency of mesh index i is the representative of i modulo n with the smallest
  absolute value (for 2i == n the sign is irrelevant: only squares are used).
* |k|^2, k_perp^2, kz^2 are exact integers (mode units); mu^2 = kz^2/|k|^2.
* A mode whose squared coordinate is within ``TIE_ULPS`` float32 ulps of a squared edge is
  *ambiguous*: it may be counted on either side (or in/out of the range for an outer edge).
  Counts are therefore bounded from below by the definite members and from above by the
  possible members of each bin.
"""
import numpy as np

TIE_ULPS = 4
EPS32 = 2.0**-23  # float32 spacing relative to 1


def freq(idx, n):
    """Signed integer frequency of mesh index idx on a periodic mesh of n points."""
    idx = np.asarray(idx, dtype=np.int64)
    return np.where(2 * idx <= n, idx, idx - n)


class Model:
    """Flat per-entry arrays: src (flat index into the stored mesh), mult, kx2+ky2 (kp2), kz2, k2."""

    def __init__(self, name, n, src, mult, fx, fy, fz):
        self.name = name
        self.n = n
        self.src = src.ravel().astype(np.int64)
        self.mult = mult.ravel().astype(np.int64)
        fx, fy, fz = (np.asarray(a, dtype=np.int64).ravel() for a in (fx, fy, fz))
        self.fx2, self.fy2 = fx * fx, fy * fy
        self.kp2 = fx * fx + fy * fy
        self.kz2 = fz * fz
        self.k2 = self.kp2 + self.kz2

    def mu2(self):
        """kz^2/|k|^2 in float64 (division error 1e-16 is far below the tie width); DC -> nan."""
        with np.errstate(invalid='ignore', divide='ignore'):
            return np.where(self.k2 > 0, self.kz2 / np.maximum(self.k2, 1), np.nan)


def full_model(n, stored='half'):
    """All n^3 modes of the full mesh, each once.  stored='half': values live in an rfft array
    (n, n, n//2+1) and are looked up by Hermitian completion; stored='full': a real (n, n, n)
    mesh that is binned as it is."""
    i, j, k = np.meshgrid(np.arange(n), np.arange(n), np.arange(n), indexing='ij')
    if stored == 'half':
        kzlen = n // 2 + 1
        own = k <= n // 2
        si = np.where(own, i, (-i) % n)
        sj = np.where(own, j, (-j) % n)
        sk = np.where(own, k, n - k)
        src = (si * n + sj) * kzlen + sk
    else:
        src = (i * n + j) * n + k
    return Model('full', n, src, np.ones_like(i), freq(i, n), freq(j, n), freq(k, n))


def half_model(n, stored='half', nyquist_weight=1, oddfold=False, name=None):
    """The stored half (kz index 0..n//2) with explicit multiplicities.

    nyquist_weight=2 and oddfold=True reproduce wrong conventions (root-cause attribution only):
    oddfold folds x/y index i >= n//2 to i-n also for odd n, where index n//2 is really +n//2."""
    kzlen = n // 2 + 1
    i, j, k = np.meshgrid(np.arange(n), np.arange(n), np.arange(kzlen), indexing='ij')
    if oddfold:
        fx = np.where(i < n // 2, i, i - n)
        fy = np.where(j < n // 2, j, j - n)
    else:
        fx, fy = freq(i, n), freq(j, n)
    mult = np.where(k == 0, 1, 2)
    if n % 2 == 0 and n > 0:
        mult = np.where((k == n // 2) & (k > 0), nyquist_weight, mult)
    src = (i * n + j) * (kzlen if stored == 'half' else n) + k
    nm = name or ('half' + ('+nyq%d' % nyquist_weight if nyquist_weight != 1 else '') + ('+oddfold' if oddfold else ''))
    return Model(nm, n, src, mult, fx, fy, k)


def edge_count_range(x, edges_sq, ulps=TIE_ULPS):
    """For each x: (a, b) with a = number of edges definitely below x and b = number of edges
    possibly <= x.  The number c of edges the implementation may regard as '<= x' lies in [a, b];
    the bin is c-1 (c == 0: below the range, c == len(edges): above it)."""
    e = np.asarray(edges_sq, dtype=np.float64)
    tol = ulps * EPS32 * np.abs(e)
    up, dn = e + tol, e - tol
    # keep the shifted arrays sorted even for pathological (nearly equal) edges
    up = np.maximum.accumulate(up)
    dn = np.minimum.accumulate(dn[::-1])[::-1]
    x = np.asarray(x, dtype=np.float64)
    a = np.searchsorted(up, x, side='left')
    b = np.searchsorted(dn, x, side='right')
    return a.astype(np.int64), np.maximum(a, b).astype(np.int64)


class Bounds:
    pass


def bin_bounds(xa, xb, ya, yb, mult, nx, ny):
    """Tie-aware count bounds for an (nx, ny) table.  (xa, xb) / (ya, yb): admissible 'edge counts'
    per mode along each axis (bin = count-1; counts 0 and n+1 mean outside).

    Returns lo, hi (per bin), definite (bool per mode: exactly one admissible bin, inside),
    bx, by (that bin), lo_x/hi_x (per x bin, y ties ignored), total_lo/total_hi."""
    r = Bounds()
    lo = np.zeros((nx, ny), dtype=np.int64)
    hi = np.zeros((nx, ny), dtype=np.int64)
    inside_def = (xa >= 1) & (xb <= nx) & (ya >= 1) & (yb <= ny)
    inside_pos = (xb >= 1) & (xa <= nx) & (yb >= 1) & (ya <= ny)
    definite = inside_def & (xa == xb) & (ya == yb)
    np.add.at(lo, (xa[definite] - 1, ya[definite] - 1), mult[definite])
    wx = int((xb - xa).max()) if len(xa) else 0
    wy = int((yb - ya).max()) if len(ya) else 0
    for dx in range(wx + 1):
        cx = xa + dx
        okx = (cx <= xb) & (cx >= 1) & (cx <= nx)
        for dy in range(wy + 1):
            cy = ya + dy
            ok = okx & (cy <= yb) & (cy >= 1) & (cy <= ny)
            np.add.at(hi, (cx[ok] - 1, cy[ok] - 1), mult[ok])
    # per x-bin (y in range required, y ties between y-bins irrelevant)
    lo_x = np.zeros(nx, dtype=np.int64)
    hi_x = np.zeros(nx, dtype=np.int64)
    dx_def = inside_def & (xa == xb)
    np.add.at(lo_x, xa[dx_def] - 1, mult[dx_def])
    for dx in range(wx + 1):
        cx = xa + dx
        ok = (cx <= xb) & (cx >= 1) & (cx <= nx) & (yb >= 1) & (ya <= ny)
        np.add.at(hi_x, cx[ok] - 1, mult[ok])
    r.lo, r.hi, r.definite = lo, hi, definite
    r.bx = np.where(definite, xa - 1, -1)
    r.by = np.where(definite, ya - 1, -1)
    r.x_definite = dx_def
    r.lo_x, r.hi_x = lo_x, hi_x
    r.total_lo = int(mult[inside_def].sum())
    r.total_hi = int(mult[inside_pos].sum())
    r.ambiguous = inside_pos & ~definite
    r.n_ambiguous = int(mult[r.ambiguous].sum())
    return r


def legendre(l, mu):
    """P_l(mu) for l = 0..4, closed forms."""
    mu = np.asarray(mu, dtype=np.float64)
    if l == 0:
        return np.ones_like(mu)
    if l == 1:
        return mu
    if l == 2:
        return 0.5 * (3 * mu**2 - 1)
    if l == 3:
        return 0.5 * (5 * mu**3 - 3 * mu)
    if l == 4:
        return (35 * mu**4 - 30 * mu**2 + 3) / 8.0
    raise ValueError(l)


# sum of |coefficients| of P_l: scale of the intermediate terms in a monomial evaluation
LEGENDRE_ABS = {0: 1.0, 1: 1.0, 2: 2.0, 3: 4.0, 4: 8.5}


def kmu_reference(model, values, kedges_sq, muedges_sq, poles, kunit, scales=None):
    """Expected (k, mu) table for `model`.

    scales (optional, flat like values): magnitude of each stored value for the tolerance, when the value itself is
    a cancelling sum computed in low precision by the code under test (cross power Re(conj(a) b)); default |value|.

    values: flat float64 array of the stored mesh; kedges_sq / muedges_sq: squared edges (mode
    units / dimensionless), float64; kunit: physical size of one mode unit (for the mean |k|).
    mu is taken in [0, 1] (|kz|/|k|), the mu range is closed on both sides; the DC mode
    (|k| = 0, mu undefined) may sit in any mu bin."""
    nk, nm = len(kedges_sq) - 1, len(muedges_sq) - 1
    k2 = model.k2.astype(np.float64)
    ka, kb = edge_count_range(k2, kedges_sq)
    mu2 = model.mu2()
    dc = model.k2 == 0
    ma, mb = edge_count_range(np.where(dc, 0.0, mu2), muedges_sq)
    ma = np.clip(ma, 1, nm)
    mb = np.clip(mb, 1, nm)
    ma = np.where(dc, 1, ma)
    mb = np.where(dc, nm, mb)
    r = bin_bounds(ka, kb, ma, mb, model.mult, nk, nm)
    r.ka, r.kb, r.nk = ka, kb, nk
    v = np.asarray(values, dtype=np.float64).ravel()[model.src]
    av = np.abs(v) if scales is None else np.asarray(scales, dtype=np.float64).ravel()[model.src]
    w = model.mult.astype(np.float64)
    d = r.definite
    r.sum_v = np.zeros((nk, nm))
    r.sum_abs = np.zeros((nk, nm))
    r.sum_k = np.zeros((nk, nm))
    np.add.at(r.sum_v, (r.bx[d], r.by[d]), (w * v)[d])
    np.add.at(r.sum_abs, (r.bx[d], r.by[d]), (w * av)[d])
    np.add.at(r.sum_k, (r.bx[d], r.by[d]), (w * np.sqrt(k2) * kunit)[d])
    # multipoles: per k bin, all mu
    dx = r.x_definite
    mu = np.sqrt(np.where(dc, 0.0, mu2))
    r.pole_sum = {}
    r.abs_x = np.zeros(nk)
    np.add.at(r.abs_x, ka[dx] - 1, (w * av)[dx])
    for l in poles:
        s = np.zeros(nk)
        np.add.at(s, ka[dx] - 1, (w * v * (2 * l + 1) * legendre(l, mu))[dx])
        r.pole_sum[int(l)] = s
    # the DC mode's mu is a convention: record where it can be and how much it carries
    r.dc_bins = sorted(set(range(int(ka[dc].min()) - 1, int(kb[dc].max()))) & set(range(nk))) if dc.any() else []
    r.dc_abs = float((w * av)[dc].sum()) if dc.any() else 0.0
    r.n_ties = int(model.mult[r.ambiguous & ~dc].sum())  # rounding ties proper (the DC mode apart)
    return r


def k_ties_consistent(model, r, totals):
    """Are the observed per-k-bin mode totals reachable when every rounding tie is resolved *consistently*?

    The interval test (lo <= count <= hi) lets every tied mode choose its side on its own.  Modes whose wave vectors are
    permutations / sign flips of one another with at most two non-zero components have the same |k|^2 in any floating-point
    evaluation of kx^2+ky^2+kz^2 (addition commutes), so whatever side of an edge is right for one of them is right for all:
    such an orbit is all-or-nothing.  Tied modes with three non-zero components stay free individually.
    -> (True, '') or (False, detail).  Undecidable layouts (a mode tied with two edges) -> True."""
    ka, kb, nk = r.ka, r.kb, r.nk
    T = [int(x) for x in np.asarray(totals).ravel()]
    if len(T) != nk:
        return True, ''
    tie = ka != kb
    if not tie.any():
        return True, ''
    if np.any((kb - ka)[tie] != 1):
        return True, ''
    D = np.zeros(nk, dtype=np.int64)
    d = ~tie & (ka >= 1) & (ka <= nk)
    np.add.at(D, ka[d] - 1, model.mult[d])
    units = [dict() for _ in range(nk + 1)]  # per edge: orbit key -> weight
    free = [[] for _ in range(nk + 1)]
    for idx in np.flatnonzero(tie):
        e = int(ka[idx])
        if not 0 <= e <= nk:
            return True, ''
        comp = sorted((int(model.fx2[idx]), int(model.fy2[idx]), int(model.kz2[idx])))
        w = int(model.mult[idx])
        if comp[0] == 0:  # at most two non-zero components
            units[e][tuple(comp)] = units[e].get(tuple(comp), 0) + w
        else:
            free[e].append(w)
    S, tot = [], []
    for e in range(nk + 1):
        sums = {0}
        for w in list(units[e].values()) + free[e]:
            sums |= {x + w for x in sums}
        S.append(sums)
        tot.append(sum(units[e].values()) + sum(free[e]))
    for up0 in sorted(S[0]):
        cur, ok = up0, True
        for b in range(nk):
            nxt = int(D[b]) + cur + tot[b + 1] - T[b]
            if nxt not in S[b + 1]:
                ok = False
                break
            cur = nxt
        if ok:
            return True, ''
    desc = '; '.join('edge %d: orbits %s free %s' % (e, sorted(units[e].items()), free[e]) for e in range(nk + 1) if units[e] or free[e])
    return False, 'per-k-bin totals %s cannot be produced by resolving each tie orbit as a whole (definite members %s; tied: %s)' % (T, D.tolist(), desc)


def kppi_reference(model, values, kedges_sq, piedges_sq):
    """Expected (k_perp, k_par) table: k_perp^2 against kedges_sq, kz^2 against piedges_sq.
    A mode on an outer edge is ambiguous (in or out), except at the lower end of the pi range:
    pi is documented to range from 0 (piedges_sq[0] == 0 exactly), so the kz = 0 plane is inside."""
    nk, npi = len(kedges_sq) - 1, len(piedges_sq) - 1
    ka, kb = edge_count_range(model.kp2.astype(np.float64), kedges_sq)
    pa, pb = edge_count_range(model.kz2.astype(np.float64), piedges_sq)
    if piedges_sq[0] == 0.0:
        pa, pb = np.maximum(pa, 1), np.maximum(pb, 1)
    r = bin_bounds(ka, kb, pa, pb, model.mult, nk, npi)
    v = np.asarray(values, dtype=np.float64).ravel()[model.src]
    w = model.mult.astype(np.float64)
    d = r.definite
    r.sum_v = np.zeros((nk, npi))
    r.sum_abs = np.zeros((nk, npi))
    np.add.at(r.sum_v, (r.bx[d], r.by[d]), (w * v)[d])
    np.add.at(r.sum_abs, (r.bx[d], r.by[d]), (w * np.abs(v))[d])
    r.n_ties = int(model.mult[r.ambiguous & (model.kp2 > 0)].sum())  # apart from the k_perp = 0 column on a zero first edge
    return r


def restrict(model, keep, name):
    """Sub-model containing only the entries where keep is True (root-cause attribution)."""
    m = Model.__new__(Model)
    m.name, m.n = name, model.n
    for f in ('src', 'mult', 'kp2', 'kz2', 'k2', 'fx2', 'fy2'):
        setattr(m, f, getattr(model, f)[keep])
    return m


def self_test(nmax=9):
    """The two formulations of the statement (full mesh; stored half with multiplicities) agree."""
    rng = np.random.Generator(np.random.PCG64(5))
    for n in range(1, nmax + 1):
        f, h = full_model(n), half_model(n)
        assert f.mult.sum() == n**3 and h.mult.sum() == n**3, n
        vals = rng.random(n * n * (n // 2 + 1))
        ke = np.array([0.5, 1.5, 4.5, 9.5, 30.5])
        me = np.linspace(0, 1, 4) ** 2
        a = kmu_reference(f, vals, ke, me, [0, 2, 4], 1.0)
        b = kmu_reference(h, vals, ke, me, [0, 2, 4], 1.0)
        assert (a.lo == b.lo).all() and (a.hi == b.hi).all()
        assert np.allclose(a.sum_v, b.sum_v) and np.allclose(a.sum_k, b.sum_k)
        for l in (0, 2, 4):
            assert np.allclose(a.pole_sum[l], b.pole_sum[l])
    return True
