"""Float64 reference for TSC / CIC mass assignment (DESIGN 3.4).

Exact separable kernels, cells centred at integer grid coordinates p = (x + offset) * g / L, periodic images summed
explicitly (so 2- and 3-cell axes are handled).  Both kernels are continuous at their rounding edges, so a tolerance
comparison is sound whichever way a half-cell position rounds in the code under test.
"""
import math

import numpy as np


def w_tsc(d):
    d = abs(d)
    if d <= 0.5:
        return 0.75 - d * d
    if d <= 1.5:
        return 0.5 * (1.5 - d) ** 2
    return 0.0


def w_cic(d):
    d = abs(d)
    return 1.0 - d if d < 1.0 else 0.0


def axis_weights(p, g, kind):
    """dict cell -> weight along one axis for grid coordinate p (float64) on g cells"""
    f = w_tsc if kind == 'tsc' else w_cic
    r = 2 if kind == 'tsc' else 1
    out = {}
    lo = int(math.floor(p)) - r
    for i in range(lo, lo + 2 * r + 3):
        w = f(p - i)
        if w != 0.0:
            c = i % g
            out[c] = out.get(c, 0.0) + w
    return out


def reference(pos, shape, box, weights=None, offset=0.0, kind='tsc', flat_z=False):
    """density[gx,gy,gz] in float64.  flat_z: z axis has one cell and is ignored (the 2-D case)."""
    pos = np.asarray(pos, dtype=np.float64)
    rho = np.zeros(shape, dtype=np.float64)
    gx, gy, gz = shape
    for n in range(len(pos)):
        W = 1.0 if weights is None else float(weights[n])
        wx = axis_weights((pos[n, 0] + offset) * gx / box, gx, kind)
        wy = axis_weights((pos[n, 1] + offset) * gy / box, gy, kind)
        wz = {0: 1.0} if flat_z else axis_weights((pos[n, 2] + offset) * gz / box, gz, kind)
        for i, a in wx.items():
            for j, b in wy.items():
                for k, c in wz.items():
                    rho[i, j, k] += a * b * c * W
    return rho
