"""Reference decoders AND encoders for the Abacus bit-packed particle formats
(DESIGN.md section 3.3).  Pure numpy / Python-int code written from the layouts
stated in properties C04 / C15; nothing here imports the package under test.

Used by C04 (rvint, aux word), C15 (pack9), and meant to be imported by C16 / C01.

Conventions
-----------
* "fields" functions return the *exact integer* content of the bit fields (int64).
  They use unsigned integer division / modulo, not the shift/mask constants of the
  implementation, so a typo in a mask cannot be reproduced here by copy and paste.
* "ref_*_decode" functions return the physical values.  They are evaluated in
  extended precision (x87 long double, 64-bit mantissa; relative error < 2^-62) from
  an *integer numerator* where possible, and rounded ONCE to the requested float
  dtype.  The matching "*_tol" function gives a sound absolute tolerance for an
  implementation that evaluates the documented formula in `dtype` (or wider)
  arithmetic in any operation order:  tol = k * eps(dtype) * scale,  where `scale`
  is the sum of the magnitudes of the terms of the formula (so cancellation, e.g.
  idx*Box/ppd - Box/2, is accounted for).  k defaults to the values derived in the
  docstrings below.
* "*_encode" functions are the inverse direction (physical value -> bits), used for
  round-trip checks.

Quick reference
---------------
rvint (one int32 word per coordinate)
    rvint_fields(words)                    -> (ipos, ivel)     exact ints, same shape
    rvint_make(ipos, ivel12)               -> int32 words      bit-level builder
    ref_rvint_decode(words, box, dtype)    -> (pos, vel)       arrays of `dtype`, same shape as words
    rvint_tol(words, box, dtype, k=2)      -> (postol, veltol) float64 arrays
    rvint_encode(pos, vel, box)            -> int32 words      nearest quantum, velocity clamped
    rvint_quanta(box)                      -> (pos_quantum, vel_quantum)

aux / packed pid (one uint64 word per particle)
    aux_fields(words)                      -> dict(lagr_idx[N,3], tagged, dens10, pid)  exact ints
    ref_aux_decode(words, box, ppd, dtype) -> dict(pid, lagr_idx, lagr_pos, tagged, density)
    lagr_pos_tol(lagr_idx, box, ppd, dtype, k=2) -> float64[N,3]
    aux_encode(lagr_idx, tagged, dens10, other) -> uint64 words
    AUX_LAYOUT, AUX_UNUSED_BITS, AUX_PID_BITS

pack9 (9-byte records: cell headers and particles)
    pack9_fields(records)                  -> int64[N,6]  raw 12-bit fields 0..4095
    pack9_from_fields(fields)              -> uint8[N,9]
    pack9_encode_particle(six_fields)      -> uint8[9]
    pack9_encode_header(cpd, vscale_field, cell_ijk, low_nibble=0) -> uint8[9]
    pack9_is_header(records)               -> bool[N]
    pack9_stream(items)                    -> uint8[N,9]  from [('H', cpd, vf, (i,j,k)[, nib]) | ('P', six_fields)]
    pack9_particle_fields(frac, vel, velz, cpd, vscale_field) -> int64[...,6]  physical -> raw fields
    ref_pack9_decode(records, box, velz, dtype, info=False) -> (pos, vel)[, info]
"""
import numpy as np

__all__ = [
    'feps', 'HP',
    'rvint_fields', 'rvint_make', 'ref_rvint_decode', 'rvint_tol', 'rvint_encode', 'rvint_quanta',
    'AUX_LAYOUT', 'AUX_UNUSED_BITS', 'AUX_PID_BITS', 'aux_fields', 'ref_aux_decode', 'lagr_pos_tol', 'aux_encode',
    'pack9_fields', 'pack9_from_fields', 'pack9_encode_particle', 'pack9_encode_header', 'pack9_is_header',
    'pack9_stream', 'pack9_particle_fields', 'ref_pack9_decode',
]

# extended precision type used for the "exact" evaluation (falls back to float64
# where long double is not wider; the tolerances below then still hold with k+1)
HP = np.longdouble if np.finfo(np.longdouble).nmant >= 60 else np.float64
_HP_IS_WIDE = HP is not np.float64


def feps(dtype):
    """Machine epsilon (spacing of 1.0) of a float dtype as a Python float."""
    return float(np.finfo(np.dtype(dtype)).eps)


def _k(k):
    return k if _HP_IS_WIDE else k + 1


# =====================================================================================
# RVint:  int32 word = [ signed 20-bit position | 12-bit velocity, biased by 2048 ]
#         pos = ipos * Box/1e6            vel = (v12 - 2048) * 6000/2048   km/s
# =====================================================================================

RVINT_POS_UNITS = 1000000  # position quanta per box
RVINT_VEL_MAX = 6000  # km/s at -2048 quanta
RVINT_VEL_BIAS = 2048


def rvint_fields(words):
    """Exact integer fields of RVint words.

    words: array of int32 (or uint32 / any ints holding the 32-bit pattern).
    Returns (ipos, ivel): int64 arrays of the same shape, ipos in [-2^19, 2^19),
    ivel = v12 - 2048 in [-2048, 2047].
    """
    u = np.asarray(words).astype(np.int64) % (1 << 32)  # the 32-bit pattern as an unsigned number
    hi = u // 4096
    ipos = hi - (hi >= (1 << 19)) * (1 << 20)
    ivel = u % 4096 - RVINT_VEL_BIAS
    return ipos, ivel


def rvint_make(ipos, v12):
    """Bit-level builder: signed 20-bit `ipos` and raw unsigned 12-bit `v12` -> int32 words."""
    ipos = np.asarray(ipos, dtype=np.int64)
    v12 = np.asarray(v12, dtype=np.int64)
    if np.any(ipos < -(1 << 19)) or np.any(ipos >= (1 << 19)) or np.any(v12 < 0) or np.any(v12 > 4095):
        raise ValueError('rvint_make: field out of range')
    u = (ipos % (1 << 20)) * 4096 + v12
    return u.astype(np.uint32).view(np.int32)


def rvint_quanta(box):
    """(position quantum, velocity quantum) of the format."""
    return float(box) / RVINT_POS_UNITS, RVINT_VEL_MAX / 2048.0


def _rvint_exact(words, box):
    ipos, ivel = rvint_fields(words)
    pos = ipos.astype(HP) * HP(float(box)) / HP(RVINT_POS_UNITS)
    vel = ivel.astype(np.float64) * (RVINT_VEL_MAX / 2048.0)  # exact: |ivel|*375/128 needs 21 bits
    return pos, vel


def ref_rvint_decode(words, box, dtype=np.float32):
    """Reference RVint decode.

    words: int32 array of any shape (usually [N,3]); box: BoxSize.
    Returns (pos, vel) of `dtype`, same shape as `words`; pos is the correctly rounded
    value of ipos*box/1e6 (box taken as the float64 value passed), vel is exact.
    """
    pos, vel = _rvint_exact(words, box)
    return pos.astype(dtype), vel.astype(dtype)


def rvint_tol(words, box, dtype=np.float32, k=2):
    """Absolute tolerances (postol, veltol), float64 arrays shaped like `words`.

    pos: the implementation may round box/1e6, the product and the store separately:
    relative error <= 2*2^-53 + eps(dtype)/2 < eps(dtype); k=2 leaves a factor 2.
    One position quantum is >= 16 eps(float32) relative, so k=2 cannot hide a wrong field.
    vel: every value is exactly representable (21 significant bits); k*eps is granted anyway.
    """
    pos, vel = _rvint_exact(words, box)
    e = _k(k) * feps(dtype)
    return np.abs(pos).astype(np.float64) * e, np.abs(vel) * e


def rvint_encode(pos, vel, box):
    """Encode positions in [-box/2, box/2] and velocities to RVint words (nearest quantum).

    Velocities are clamped to the representable range [-6000, 2047*6000/2048].
    Returns int32 array shaped like `pos`.
    """
    pos = np.asarray(pos, dtype=np.float64)
    vel = np.asarray(vel, dtype=np.float64)
    ipos = np.rint(pos.astype(HP) * HP(RVINT_POS_UNITS) / HP(float(box))).astype(np.int64)
    iv = np.rint(vel * (2048.0 / RVINT_VEL_MAX)).astype(np.int64)
    iv = np.clip(iv, -2048, 2047)
    return rvint_make(ipos, iv + RVINT_VEL_BIAS)


# =====================================================================================
# aux / packed pid: uint64
#   bits 0-14, 16-30, 32-46   Lagrangian index x, y, z (15 bits each)
#   bit 48                    tagged
#   bits 49-58                density code d (10 bits);  density = d^2
#   pid = word with every bit outside the three index fields cleared
#   lagr_pos = idx * Box/ppd - Box/2
#   bits 15, 31, 47, 59-63    not used by any decoded field
# =====================================================================================

AUX_LAYOUT = {  # name -> (lowest bit, width)
    'ix': (0, 15),
    'iy': (16, 15),
    'iz': (32, 15),
    'tagged': (48, 1),
    'density': (49, 10),
}
AUX_UNUSED_BITS = (15, 31, 47, 59, 60, 61, 62, 63)
AUX_PID_BITS = tuple(list(range(0, 15)) + list(range(16, 31)) + list(range(32, 47)))


def _u64(words):
    w = np.asarray(words)
    if w.dtype != np.uint64:
        w = w.astype(np.uint64)
    return w


def _field(w, lo, width):
    return ((w // np.uint64(1 << lo)) % np.uint64(1 << width)).astype(np.int64)


def aux_fields(words):
    """Exact integer fields of aux words: dict(lagr_idx int64[N,3], tagged int64[N],
    dens10 int64[N] (the raw 10-bit code), pid int64[N])."""
    w = _u64(words)
    ix = _field(w, *AUX_LAYOUT['ix'])
    iy = _field(w, *AUX_LAYOUT['iy'])
    iz = _field(w, *AUX_LAYOUT['iz'])
    pid = ix + iy * (1 << 16) + iz * (1 << 32)
    return {
        'lagr_idx': np.stack([ix, iy, iz], axis=-1),
        'tagged': _field(w, *AUX_LAYOUT['tagged']),
        'dens10': _field(w, *AUX_LAYOUT['density']),
        'pid': pid,
    }


def ref_aux_decode(words, box=None, ppd=None, dtype=np.float32):
    """Reference aux decode -> dict(pid int64[N], lagr_idx int16[N,3], tagged uint8[N],
    density dtype[N] (= code^2, exact), lagr_pos dtype[N,3] (only when box and ppd are given;
    correctly rounded idx*box/ppd - box/2))."""
    f = aux_fields(words)
    out = {
        'pid': f['pid'],
        'lagr_idx': f['lagr_idx'].astype(np.int16),
        'tagged': f['tagged'].astype(np.uint8),
        'density': (f['dens10'] * f['dens10']).astype(dtype),  # <= 1023^2 < 2^24: exact in float32
    }
    if box is not None and ppd is not None:
        out['lagr_pos'] = _lagr_exact(f['lagr_idx'], box, ppd).astype(dtype)
    return out


def _lagr_exact(lagr_idx, box, ppd):
    b = HP(float(box))
    p = int(round(float(ppd)))
    # (2*idx - ppd) * box / (2*ppd): integer numerator, no cancellation in floating point
    num = (2 * np.asarray(lagr_idx, dtype=np.int64) - p).astype(HP)
    return num * b / HP(2 * p)


def lagr_pos_tol(lagr_idx, box, ppd, dtype=np.float32, k=2):
    """Absolute tolerance for lagr_pos: k*eps(dtype)*(|idx*box/ppd| + box/2).

    An implementation rounding box/ppd and box/2 to `dtype`, multiplying, subtracting and
    storing in `dtype` is within 1.5*eps*A + eps*B of the exact value (A, B the two terms);
    k=2 covers every operation order.
    """
    idx = np.asarray(lagr_idx, dtype=np.float64)
    b = abs(float(box))
    scale = idx * b / float(int(round(float(ppd)))) + b / 2
    return _k(k) * feps(dtype) * scale


def aux_encode(lagr_idx, tagged=0, dens10=0, other=0):
    """Build aux words. lagr_idx: int[N,3] in 0..32767; tagged 0/1; dens10 0..1023;
    `other`: uint64 bits OR-ed in *only* at AUX_UNUSED_BITS (anything else is masked off)."""
    idx = np.asarray(lagr_idx, dtype=np.int64)
    if idx.shape[-1] != 3:
        raise ValueError('lagr_idx must have a last axis of 3')
    tagged = np.asarray(tagged, dtype=np.int64)
    dens10 = np.asarray(dens10, dtype=np.int64)
    if np.any(idx < 0) or np.any(idx > 32767) or np.any(tagged < 0) or np.any(tagged > 1) or np.any(dens10 < 0) or np.any(dens10 > 1023):
        raise ValueError('aux_encode: field out of range')
    w = idx[..., 0].astype(np.uint64) + idx[..., 1].astype(np.uint64) * np.uint64(1 << 16) + idx[..., 2].astype(np.uint64) * np.uint64(1 << 32)
    w = w + tagged.astype(np.uint64) * np.uint64(1 << 48) + dens10.astype(np.uint64) * np.uint64(1 << 49)
    unused = np.uint64(sum(1 << b for b in AUX_UNUSED_BITS))
    return w + (_u64(other) & unused)


# =====================================================================================
# pack9: 9 bytes c0..c8 -> six 12-bit fields
#   f0 = c0<<4 | c1&0xF    f1 = (c1&0xF0)<<4 | c2
#   f2 = c3<<4 | c4&0xF    f3 = (c4&0xF0)<<4 | c5
#   f4 = c6<<4 | c7&0xF    f5 = (c7&0xF0)<<4 | c8          s_i = f_i - 2048
#   header record  <=>  c0 == 0xFF:
#       cpd = f1-48,  velocity-scale field vf = f2-48,  cell index (i,j,k) = f3..5 - 48
#       cell = Box/cpd;  cell centre = (i+0.5)*cell - Box/2;
#       position unit = 0.0005*cell;  velocity unit = vf*0.0005/cpd*VelZSpace_to_kms
#   particle record: pos = s0..2 * position unit + cell centre;  vel = s3..5 * velocity unit
#   particles before the first header have no defined value (NaN in the reference).
# =====================================================================================

PACK9_BIAS = 2048
PACK9_HDR_BIAS = 48  # = 2048 - 2000
PACK9_UNITS_PER_CELL = 2000  # 1/0.0005


def _rec(records):
    r = np.asarray(records)
    if r.dtype == np.int8:
        r = r.view(np.uint8)
    r = r.astype(np.uint8, copy=False).reshape(-1, 9)
    return r


def pack9_fields(records):
    """uint8/int8 [N,9] -> int64 [N,6] raw 12-bit fields (0..4095)."""
    c = _rec(records).astype(np.int64)
    f = np.empty((len(c), 6), dtype=np.int64)
    for g in range(3):
        a, b, d = c[:, 3 * g], c[:, 3 * g + 1], c[:, 3 * g + 2]
        f[:, 2 * g] = a * 16 + b % 16
        f[:, 2 * g + 1] = (b // 16) * 256 + d
    return f


def pack9_from_fields(fields):
    """int [N,6] raw fields 0..4095 -> uint8 [N,9] (inverse of pack9_fields)."""
    f = np.asarray(fields, dtype=np.int64).reshape(-1, 6)
    if np.any(f < 0) or np.any(f > 4095):
        raise ValueError('pack9 field out of range')
    c = np.empty((len(f), 9), dtype=np.int64)
    for g in range(3):
        e, o = f[:, 2 * g], f[:, 2 * g + 1]
        c[:, 3 * g] = e // 16
        c[:, 3 * g + 1] = e % 16 + (o // 256) * 16
        c[:, 3 * g + 2] = o % 256
    return c.astype(np.uint8)


def pack9_encode_particle(six_fields):
    """Six raw 12-bit fields (0..4095; f0 < 0xFF0 for a particle) -> uint8[9]."""
    return pack9_from_fields(np.asarray(six_fields).reshape(1, 6))[0]


def pack9_encode_header(cpd, vscale_field, cell_ijk, low_nibble=0):
    """Header record: cpd in 1..4047, vscale_field in -48..4047, cell_ijk each in -48..4047;
    `low_nibble` is the free low nibble of c1 (0..15).  -> uint8[9] with c0 == 0xFF."""
    i, j, k = (int(x) for x in cell_ijk)
    f = [0xFF0 + int(low_nibble), int(cpd) + PACK9_HDR_BIAS, int(vscale_field) + PACK9_HDR_BIAS, i + PACK9_HDR_BIAS, j + PACK9_HDR_BIAS, k + PACK9_HDR_BIAS]
    if not (0 <= int(low_nibble) <= 15):
        raise ValueError('low_nibble')
    return pack9_encode_particle(f)


def pack9_is_header(records):
    return _rec(records)[:, 0] == 0xFF


def pack9_stream(items):
    """Build a record stream from a list of items:
    ('H', cpd, vscale_field, (i,j,k)[, low_nibble])  or  ('P', six_raw_fields)."""
    out = np.empty((len(items), 9), dtype=np.uint8)
    for n, it in enumerate(items):
        if it[0] == 'H':
            out[n] = pack9_encode_header(it[1], it[2], it[3], it[4] if len(it) > 4 else 0)
        elif it[0] == 'P':
            out[n] = pack9_encode_particle(it[1])
        else:
            raise ValueError('pack9_stream item %r' % (it,))
    return out


def pack9_particle_fields(frac, vel, velz, cpd, vscale_field):
    """Physical -> raw fields for particles of one cell.

    frac: [...,3] offset from the cell centre in units of the cell size (|frac| <= 1.0235);
    vel: [...,3] km/s; the header's (cpd, vscale_field) and VelZSpace_to_kms give the velocity unit.
    Nearest quantum; velocities clamped to the representable +-2047 units. -> int64[...,6]."""
    frac = np.asarray(frac, dtype=np.float64)
    vel = np.asarray(vel, dtype=np.float64)
    vunit = float(vscale_field) * float(velz) / (PACK9_UNITS_PER_CELL * float(cpd))
    sp = np.rint(frac * PACK9_UNITS_PER_CELL).astype(np.int64)
    sv = np.clip(np.rint(vel / vunit), -2048, 2047).astype(np.int64) if vunit != 0 else np.zeros(vel.shape, dtype=np.int64)
    f = np.concatenate([sp, sv], axis=-1) + PACK9_BIAS
    if np.any(f < 0) or np.any(f > 4095):
        raise ValueError('pack9_particle_fields: out of range')
    return f


def ref_pack9_decode(records, box, velz, dtype=np.float32, info=False):
    """Reference pack9 decode.

    records: uint8/int8 [N,9]; box: BoxSize; velz: VelZSpace_to_kms.
    Returns (pos, vel) of `dtype`, shape [n_particles,3], in stream order; with info=True also a
    dict(n, is_header bool[N], hdr int64[n] (stream index of the governing header, -1 = none),
    defined bool[n], pos_scale float64[n,3], vel_scale float64[n,3]) where a sound absolute
    tolerance for an implementation working in `dtype` is k*eps(dtype)*scale (k = 6 covers the
    ~3 eps derived for the straightforward evaluation order; pos_scale is the sum of the
    magnitudes of cell term, half box and in-cell offset, vel_scale is |vel|).

    Exact evaluation: pos = box*(s + 2000*i + 1000 - 1000*cpd) / (2000*cpd),
                      vel = velz*s*vf / (2000*cpd)  (integer numerators, one rounding).
    """
    r = _rec(records)
    N = len(r)
    f = pack9_fields(r)
    ish = r[:, 0] == 0xFF
    idx = np.arange(N, dtype=np.int64)
    last = np.maximum.accumulate(np.where(ish, idx, -1)) if N else idx
    part = ~ish
    hdr = last[part]
    n = int(part.sum())
    s = f[part] - PACK9_BIAS  # [n,6]
    defined = hdr >= 0
    h = f[np.where(defined, hdr, 0)] - PACK9_HDR_BIAS  # header values [n,6]: -, cpd, vf, i, j, k
    cpd = h[:, 1]
    vf = h[:, 2]
    cell = h[:, 3:6]
    b = HP(float(box))
    vz = HP(float(velz))
    with np.errstate(divide='ignore', invalid='ignore'):
        den = (PACK9_UNITS_PER_CELL * cpd).astype(HP)[:, None]
        num = (s[:, 0:3] + PACK9_UNITS_PER_CELL * cell + 1000 - 1000 * cpd[:, None]).astype(HP)
        pos = num * b / den
        vnum = (s[:, 3:6] * vf[:, None]).astype(HP)
        vel = vnum * vz / den
    pos = np.where(defined[:, None], pos, HP(np.nan))
    vel = np.where(defined[:, None], vel, HP(np.nan))
    out = (pos.astype(dtype), vel.astype(dtype))
    if not info:
        return out
    with np.errstate(divide='ignore', invalid='ignore'):
        cs = abs(float(box)) / cpd.astype(np.float64)[:, None]
        pos_scale = np.abs(cell + 0.5) * cs + abs(float(box)) / 2 + np.abs(s[:, 0:3]) * cs / PACK9_UNITS_PER_CELL
        vel_scale = np.abs(vel.astype(np.float64))
    pos_scale = np.where(defined[:, None], pos_scale, np.nan)
    return out + (dict(n=n, is_header=ish, hdr=hdr, defined=defined, pos_scale=pos_scale, vel_scale=vel_scale, sfields=s),)
