"""Load one halo column of one catalog in a fresh interpreter and save it (C02: process-history independence).

usage: python -m vt.fresh_load <groupdir> <cleaned 0|1> <convert_units 0|1> <field> <column name in the table> <out.npy>
"""
import sys
import warnings

from vt import env

env.setup_path()


def main(argv):
    groupdir, cleaned, convert, field, tname, out = argv
    import numpy as np

    env.register_asdf()
    from abacusnbody.data.compaso_halo_catalog import CompaSOHaloCatalog

    with warnings.catch_warnings():
        warnings.simplefilter('ignore')
        c = CompaSOHaloCatalog(groupdir, cleaned=bool(int(cleaned)), fields=[field], convert_units=bool(int(convert)))
    np.save(out, np.array(c.halos[tname], copy=True), allow_pickle=False)
    return 0


if __name__ == '__main__':
    sys.exit(main(sys.argv[1:]))
