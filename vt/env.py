"""Path and environment set-up shared by every check.

The code under test is *the current working tree* of the repository:
VERIF_REPO (default /repo) is put first on sys.path.  Sensitivity runs point
VERIF_REPO at a scratch worktree; the commands registered in MANIFEST.json
never set it.
"""
import os
import sys

VERIF = os.path.dirname(os.path.dirname(os.path.abspath(__file__)))
REPO = os.path.abspath(os.environ.get('VERIF_REPO', '/repo'))
SHIMS = os.path.join(VERIF, 'shims')
DEPS = os.path.join(VERIF, '.deps')
PYTHON = '/venv/bin/python'


def setup_path():
    """sys.path = [REPO, VERIF, shims, .deps, ...]."""
    for p in (DEPS, SHIMS, VERIF, REPO):
        while p in sys.path:
            sys.path.remove(p)
    # .deps goes *after* the venv's own site-packages so that the venv's numpy wins
    sys.path.append(DEPS)
    sys.path.insert(0, SHIMS)
    sys.path.insert(0, VERIF)
    sys.path.insert(0, REPO)


def worker_env(numba_threads=None, boundscheck=False, extra=None):
    env = dict(os.environ)
    env['PYTHONHASHSEED'] = '0'
    env['PYTHONDONTWRITEBYTECODE'] = '1'
    env['VERIF_REPO'] = REPO
    env['PYTHONPATH'] = os.pathsep.join([REPO, VERIF, SHIMS])
    env['PYTHONWARNINGS'] = 'ignore'
    if numba_threads:
        env['NUMBA_NUM_THREADS'] = str(numba_threads)
    for k in ('OMP_NUM_THREADS', 'OPENBLAS_NUM_THREADS', 'MKL_NUM_THREADS'):
        env[k] = '1'
    # numba's default OpenMP layer spin-waits: with several shards x up to 16 threads on 16 cores every parallel region costs
    # hundreds of ms. OMP_WAIT_POLICY=passive parks idle OpenMP threads; non-bounds-checking workers additionally use numba's
    # own workqueue layer. prange semantics are the same.
    env.setdefault('OMP_WAIT_POLICY', 'passive')
    if boundscheck:
        env['NUMBA_BOUNDSCHECK'] = '1'
    else:
        env.pop('NUMBA_BOUNDSCHECK', None)
        env.setdefault('NUMBA_THREADING_LAYER', 'workqueue')
    env.pop('NUMBA_DISABLE_JIT', None)
    if extra:
        env.update({k: str(v) for k, v in extra.items()})
    if boundscheck:
        # IMPORTANT: with the workqueue layer an exception raised inside a prange body (which is how a bounds error
        # surfaces) is silently dropped and the kernel returns a truncated result; only the default (OpenMP) layer
        # propagates it as SystemError. Bounds-checking workers therefore never use workqueue, whatever the module asks for.
        env.pop('NUMBA_THREADING_LAYER', None)
    return env


_asdf_registered = False


def register_asdf():
    """Register the repository's ASDF extension (blsc compressor) explicitly.

    Upstream this happens through a setuptools entry point; the harness does
    not depend on an egg-info directory being present next to the sources.
    Also wraps BloscCompressor.compress for *writing fixtures* (asdf 5.4 hands
    it an ndarray although the interface documents a memoryview, DESIGN 1).
    """
    global _asdf_registered
    if _asdf_registered:
        return
    import asdf
    import abacusnbody.data.asdf as aasdf

    cfg = asdf.get_config()
    have = [e for e in cfg.extensions if getattr(e, 'extension_uri', None) == 'asdf://abacusnbody.org/extensions/abacus-0.0.1']
    if not have:
        cfg.add_extension(aasdf.AbacusExtension())
    _asdf_registered = True


class fixture_blsc_writer:
    """Context manager: make BloscCompressor.compress accept what asdf 5.4 passes
    (an ndarray) while *writing fixtures*.  Decompression is never wrapped."""

    def __enter__(self):
        import abacusnbody.data.asdf as aasdf

        self.cls = aasdf.BloscCompressor
        self.orig = self.cls.compress
        orig = self.orig

        def compress(self_, data, **kwargs):
            if not isinstance(data, memoryview):
                data = memoryview(data)
            return orig(self_, data, **kwargs)

        self.cls.compress = compress
        return self

    def __exit__(self, *a):
        self.cls.compress = self.orig
        return False
