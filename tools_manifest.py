#!/venv/bin/python
"""Regenerates MANIFEST.json from the table below (kept in one place so it stays valid)."""
import json, os, sys
HERE = os.path.dirname(os.path.abspath(__file__))
props = [json.loads(l) for l in open(os.path.join(HERE, 'properties.jsonl'))]
ids = [p['id'] for p in props]

# id -> (technique, level text, level note, design ref)
CHECKS = {}
def reg(i, technique, text, note):
    CHECKS[i] = (technique, text, note)

sys.path.insert(0, HERE)
from manifest_table import TABLE, NOT_APPLICABLE  # noqa
for k, v in TABLE.items():
    reg(k, *v)

checks = []
for i in ids:
    if i not in CHECKS:
        continue
    technique, text, note = CHECKS[i]
    checks.append({
        'property_id': i,
        'quick_cmd': './check %s --tier quick' % i,
        'thorough_cmd': './check %s --tier thorough' % i,
        'evidence_file': 'evidence/%s.json' % i,
        'replay_cmd_template': './check %s --replay {path}' % i,
        'engine': 'hypothesis-descriptors',
        'level_claimed': {'category': 'exploration', 'text': text, 'design_ref': 'DESIGN.md section 4, %s' % i},
        'level_note': note,
        'technique': technique,
    })
na = [{'property_id': i, 'reason': NOT_APPLICABLE.get(i, 'check not built yet in this session (planned: property-based testing per DESIGN.md section 4)')} for i in ids if i not in CHECKS]
m = {
    'version': 1,
    'setup_cmd': 'sh ./setup.sh',
    'hooks': {
        'guard': 'ABACUSUTILS_VERIF',
        'enable': 'no source hooks are needed: checks import /repo\'s working tree directly (numba JIT at run time) and observe through public return values, module-level seams patched in the check\'s own process, kernel.py_func and NUMBA_BOUNDSCHECK=1',
        'baseline_off_cmd': 'cd /repo && /venv/bin/python -m pytest -ra -q -p no:cacheprovider --timeout=900 --continue-on-collection-errors',
        'source_commits': [],
        'add_only': True,
    },
    'engines': [
        {'name': 'hypothesis-descriptors', 'path': 'vt/', 'serves_properties': [c['property_id'] for c in checks],
         'kind_free_text': 'Hypothesis 6.168 generating JSON descriptors -> deterministic builders -> real code vs independent oracle; sharded over processes; corpus replay tier; exhaustive enumeration of finite sub-spaces'},
    ],
    'checks': checks,
    'not_applicable': na,
    'notes': 'Seeds: VERIF_SEED. Known/fixed findings: known_findings.json. Seeded breakages and which checks catch them: seeded/ and DESIGN.md.',
}
json.dump(m, open(os.path.join(HERE, 'MANIFEST.json'), 'w'), indent=1)
print('wrote MANIFEST.json with', len(checks), 'checks;', len(na), 'not_applicable')
try:
    import jsonschema
    jsonschema.validate(m, json.load(open('/root/.vp/MANIFEST.schema.json')))
    print('schema ok')
except ImportError:
    print('(jsonschema not available in this interpreter)')
